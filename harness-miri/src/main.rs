// Miri workloads on the pure-Rust `crypto` crate (DESIGN.md 3.6): totality of the key / digest
// decoders (C15) and encode/decode + sign/verify round trips (C18), under the UB-checking interpreter.
// Usage: hsv-miri <seed> <mode: decode|sign>
use crypto::{generate_keypair, Digest, PublicKey, SecretKey, Signature};
use rand::rngs::StdRng;
use rand::{Rng as _, SeedableRng as _};
use std::convert::TryFrom;
use std::panic::{catch_unwind, AssertUnwindSafe};

fn main() {
    let args: Vec<String> = std::env::args().collect();
    let seed: u64 = args.get(1).and_then(|s| s.parse().ok()).unwrap_or(1);
    let mode = args.get(2).cloned().unwrap_or_else(|| "decode".into());
    let mut rng = StdRng::seed_from_u64(seed);
    let mut cases = 0u64;
    let mut classes: Vec<String> = Vec::new();
    let mut violations: Vec<(String, String, String)> = Vec::new();
    std::panic::set_hook(Box::new(|_| {}));
    let mut check = |prop: &str, class: String, input: String, f: &mut dyn FnMut() -> Result<(), String>| {
        cases += 1;
        if !classes.contains(&class) {
            classes.push(class.clone());
        }
        match catch_unwind(AssertUnwindSafe(|| f())) {
            Ok(Ok(())) => {}
            Ok(Err(e)) => violations.push((prop.to_string(), class, format!("{}: {}", input, e))),
            Err(_) => violations.push(("C15".to_string(), format!("panic-in-decoder:{}", class), input)),
        }
    };
    if mode == "decode" {
        // base64 key strings of every length 0..100, valid and invalid alphabets
        for len in 0..100usize {
            for variant in 0..3 {
                let s: String = match variant {
                    0 => base64::encode(&(0..len).map(|_| rng.gen::<u8>()).collect::<Vec<u8>>()).chars().take(len).collect(),
                    1 => (0..len).map(|_| b"ABCabc012+/=!* \n"[rng.gen_range(0, 16)] as char).collect(),
                    _ => base64::encode(&(0..len).map(|_| rng.gen::<u8>()).collect::<Vec<u8>>()),
                };
                let s1 = s.clone();
                check("C15", format!("PublicKey::decode_base64/len{}", s.len().min(120)), format!("{:?}", s), &mut || {
                    let _ = PublicKey::decode_base64(&s1);
                    Ok(())
                });
                let s2 = s.clone();
                check("C15", format!("SecretKey::decode_base64/len{}", s.len().min(120)), format!("{:?}", s), &mut || {
                    let _ = SecretKey::decode_base64(&s2);
                    Ok(())
                });
                // through serde: bincode string and JSON string
                let mut b = (s.len() as u64).to_le_bytes().to_vec();
                b.extend_from_slice(s.as_bytes());
                let b1 = b.clone();
                check("C15", "bincode/PublicKey".into(), format!("{:?}", s), &mut || {
                    let _ = bincode::deserialize::<PublicKey>(&b1);
                    Ok(())
                });
                let j = serde_json::to_string(&s).unwrap();
                check("C15", "json/SecretKey".into(), format!("{:?}", s), &mut || {
                    let _ = serde_json::from_str::<SecretKey>(&j);
                    Ok(())
                });
            }
        }
        for len in 0..65usize {
            let v: Vec<u8> = (0..len).map(|_| rng.gen()).collect();
            check("C15", format!("Digest::try_from/len{}", len), format!("{} bytes", len), &mut || {
                let r = Digest::try_from(&v[..]);
                if (len == 32) != r.is_ok() {
                    return Err("accepts exactly 32 bytes".into());
                }
                Ok(())
            });
            let v2 = v.clone();
            check("C15", "bincode/Digest+Signature".into(), format!("{} bytes", len), &mut || {
                let _ = bincode::deserialize::<Digest>(&v2);
                let _ = bincode::deserialize::<Signature>(&v2);
                Ok(())
            });
        }
    } else {
        // a handful of sign / verify / encode round trips (ed25519 is slow under Miri)
        for _ in 0..2 {
            let (pk, sk) = generate_keypair(&mut rng);
            let mut d = [0u8; 32];
            rng.fill(&mut d);
            let d = Digest(d);
            let sig = Signature::new(&d, &sk);
            check("C18", "sign-verify".into(), format!("{}", pk), &mut || sig.verify(&d, &pk).map_err(|e| e.to_string()));
            let mut bytes = bincode::serialize(&sig).unwrap();
            let bit = rng.gen_range(0, 512);
            bytes[bit / 8] ^= 1 << (bit % 8);
            let bad: Signature = bincode::deserialize(&bytes).unwrap();
            check("C18", "bitflip-rejected".into(), format!("bit {}", bit), &mut || if bad.verify(&d, &pk).is_ok() { Err("flipped signature verifies".into()) } else { Ok(()) });
            check("C18", "pk-base64-roundtrip".into(), format!("{}", pk), &mut || if PublicKey::decode_base64(&pk.encode_base64()).ok() == Some(pk) { Ok(()) } else { Err("differs".into()) });
            let text = sk.encode_base64();
            check("C18", "sk-base64-roundtrip".into(), "secret".into(), &mut || if SecretKey::decode_base64(&text).map(|k| k.encode_base64()).ok() == Some(text.clone()) { Ok(()) } else { Err("differs".into()) });
            check("C18", "pk-json-bincode-roundtrip".into(), format!("{}", pk), &mut || {
                let j = serde_json::to_string(&pk).map_err(|e| e.to_string())?;
                let b = bincode::serialize(&pk).map_err(|e| e.to_string())?;
                if serde_json::from_str::<PublicKey>(&j).ok() == Some(pk) && bincode::deserialize::<PublicKey>(&b).ok() == Some(pk) { Ok(()) } else { Err("differs".into()) }
            });
        }
    }
    let viol: Vec<String> = violations
        .iter()
        .map(|(p, sig, detail)| format!("{{\"property\":{:?},\"sig\":{:?},\"detail\":{:?},\"witness\":[]}}", p, sig, detail))
        .collect();
    let cls: Vec<String> = classes.iter().map(|c| format!("{:?}", c)).collect();
    println!(
        "RESULT {{\"workload\":\"miri\",\"class\":{:?},\"seed\":{},\"params\":{{}},\"violations\":[{}],\"counters\":{{\"{}.miri_cases\":{}}},\"situations\":[],\"inconclusive\":[],\"fingerprint\":\"miri-{}-{}\",\"wall_ms\":0,\"virtual_ms\":0,\"sample\":{{\"interpreter\":\"miri\",\"mode\":{:?}}},\"cases\":{},\"classes\":[{}]}}",
        mode, seed, viol.join(","), if mode == "decode" { "C15" } else { "C18" }, cases, mode, seed, mode, cases, cls.join(",")
    );
}
