#!/usr/bin/env python3
"""Regenerates MANIFEST.json from plans.py (claimed checks) and meta below. Run after editing plans."""
import json
import os
import subprocess

import plans

ROOT = os.path.dirname(os.path.abspath(__file__))

HOOK_COMMITS = subprocess.run(
    ["git", "-C", "/repo", "log", "--format=%h %s", "--grep=^verif hook", "--grep=uncommitted hook changes"], stdout=subprocess.PIPE, text=True
).stdout.strip().splitlines()

# Per property: technique, level text, level note, design section.
META = plans.META

ids = [json.loads(l)["id"] for l in open(os.path.join(ROOT, "properties.jsonl"))]
checks = []
na = []
for pid in ids:
    if pid in plans.PLANS and pid in META:
        m = META[pid]
        checks.append(
            {
                "property_id": pid,
                "quick_cmd": "./vcheck %s quick" % pid,
                "thorough_cmd": "./vcheck %s thorough" % pid,
                "evidence_file": "/verif/evidence/%s.json" % pid,
                "replay_cmd_template": "./vcheck replay {path}",
                "engine": m["engine"],
                "level_claimed": {
                    "category": plans.PLANS[pid].get("level", "exploration"),
                    "text": m["level_text"],
                    "design_ref": "DESIGN.md section 5 (%s)" % pid,
                },
                "level_note": m["level_note"],
                "technique": m["technique"],
            }
        )
    else:
        na.append({"property_id": pid, "reason": plans.NOT_CLAIMED.get(pid, "check not built yet (work in progress; see DESIGN.md section 5 for the planned monitor)")})

manifest = {
    "version": 1,
    "setup_cmd": "./vcheck build",
    "hooks": {
        "guard": "hotstuff_verif",
        "enable": "RUSTFLAGS=\"--cfg hotstuff_verif\" (set in harness/.cargo/config.toml; the harness crates depend on /repo's crates by path through the /verif/repo symlink)",
        "baseline_off_cmd": "cd /repo && cargo test --workspace --no-fail-fast --offline",
        "source_commits": [c.split()[0] for c in HOOK_COMMITS],
        "add_only": True,
    },
    "engines": [
        {"name": "cluster", "path": "harness/src/scen_cluster.rs", "serves_properties": ["C01", "C02", "C03", "C05", "C06", "C07", "C08", "C09", "C10", "C13", "C19"], "kind_free_text": "n real nodes on an in-memory simulated network under paused tokio time; crash / delay / partition / Byzantine-actor scenarios; offline monitors over one global event log"},
        {"name": "puppet", "path": "harness/src/scen_puppet.rs", "serves_properties": ["C02", "C03", "C04", "C05", "C08", "C09", "C10", "C15", "C19"], "kind_free_text": "one real node, the harness plays the other n-1 authorities with their real keys and shows the node arbitrary validly signed histories in lock-step"},
        {"name": "component", "path": "harness/src/comp_*.rs", "serves_properties": ["C04", "C09", "C11", "C12", "C14", "C16", "C17", "C18", "C19", "C20"], "kind_free_text": "public components driven directly next to a reference model (store, reliable sender, mempool, committees, crypto, messages, aggregator)"},
        {"name": "miri", "path": "harness-miri/", "serves_properties": ["C15", "C18"], "kind_free_text": "cargo +nightly miri run on the pure-Rust crypto crate: decoders / encoders / sign-verify"},
    ],
    "checks": checks,
    "not_applicable": na,
    "notes": "All checks are runtime monitors over executions of the real code (built from /repo's working tree with --cfg hotstuff_verif). Exit 2 = inconclusive (build/harness error or coverage floor missed), never a verdict. Known findings: known_findings.json.",
}
with open(os.path.join(ROOT, "MANIFEST.json"), "w") as f:
    json.dump(manifest, f, indent=1)
print("claimed:", [c["property_id"] for c in checks])
print("not claimed:", [x["property_id"] for x in na])
