// Engine M3, pure components: quorum arithmetic (C17), signatures and encodings (C18),
// message identity (C20), leader function (C09-1), aggregator vs reference model (C19-1),
// verify-function verdict table (C04-1).
use crate::config::{Committee as NodeCommittee, Export as _, Secret};
use crate::model::{self, qc_valid, tc_valid, SigCache};
use crate::monitors::Report;
use crate::result::RunResult;
use crate::world::{addr, Scratch, Topo, SVC_CONSENSUS};
use crate::Params;
use consensus::verif::{Aggregator, ConsensusMessage, LeaderElector, Timeout, Vote};
use consensus::{Block, Committee as CCommittee, QC, TC};
use crypto::{generate_keypair, Digest, Hash as _, PublicKey, SecretKey, Signature};
use mempool::Committee as MCommittee;
use rand::rngs::StdRng;
use rand::seq::SliceRandom as _;
use rand::{Rng as _, SeedableRng as _};
use serde_json::json;
use std::collections::{BTreeSet, HashMap, HashSet};

pub struct Out {
    pub report: Report,
    pub cases: u64,
    pub classes: BTreeSet<String>,
    pub sample: serde_json::Value,
}

impl Out {
    fn new() -> Self {
        Self { report: Report::default(), cases: 0, classes: BTreeSet::new(), sample: json!(null) }
    }
    fn class(&mut self, c: String) {
        if self.classes.len() < 20_000 {
            self.classes.insert(c);
        }
    }
}

fn rand_digest(rng: &mut StdRng) -> Digest {
    let mut b = [0u8; 32];
    rng.fill(&mut b);
    Digest(b)
}

fn sock(i: usize) -> std::net::SocketAddr {
    addr(0, i % 200, SVC_CONSENSUS)
}

// =================================================================================================
// C17
fn c17_check(o: &mut Out, n: u64, q: u64, shape: &str, witness: &dyn Fn() -> String) {
    o.cases += 1;
    let f = (n - 1) / 3;
    let mut bad: Vec<String> = Vec::new();
    if !(3 * q > 2 * n) {
        bad.push(format!("3q={} <= 2N={}", 3 * q, 2 * n));
    }
    if q > n - f {
        bad.push(format!("q={} > N-f={}", q, n - f));
    }
    if 2 * q <= n + f {
        bad.push(format!("two quorums overlap in 2q-N={} <= f={}", (2 * q) as i128 - n as i128, f));
    }
    if !bad.is_empty() {
        o.report.violate("C17", "quorum-arithmetic", format!("N={} q={} ({}): {}", n, q, shape, bad.join("; ")), vec![witness()]);
    }
}

pub fn c17(class: &str, seed: u64, p: &Params) -> Out {
    let mut o = Out::new();
    let mut rng = StdRng::seed_from_u64(seed ^ 0xc17);
    let (k0, _) = generate_keypair(&mut rng);
    match class {
        "sweep" => {
            // Exhaustive sub-range with a single authority whose stake is mutated in place.
            let lo = p.get_u64("lo").unwrap_or(1).max(1);
            let hi = p.get_u64("hi").unwrap_or(1 << 22).min(1 << 31);
            let mut cc = CCommittee::new(vec![(k0, 1, sock(0))], 1);
            let mut mc = MCommittee::new(vec![(k0, 1, sock(0), sock(1))], 1);
            for n in lo..hi {
                cc.authorities.get_mut(&k0).unwrap().stake = n as u32;
                let q = cc.quorum_threshold() as u64;
                c17_check(&mut o, n, q, "single", &|| format!("single authority with stake {}", n));
                if n % 64 == 0 || n < 4096 || hi - n < 4096 {
                    mc.authorities.get_mut(&k0).unwrap().stake = n as u32;
                    let qm = mc.quorum_threshold() as u64;
                    if qm != q {
                        o.report.violate("C17", "consensus-mempool-disagree", format!("N={}: consensus q={} mempool q={}", n, q, qm), vec![]);
                    }
                }
                o.class(format!("single/mod3={}/log2={}", n % 3, 64 - n.leading_zeros()));
            }
            o.report.count("C17.swept_exhaustively", hi.saturating_sub(lo));
            o.report.count("C17.sweep_lo", lo);
            o.report.max("max.C17.sweep_hi", hi);
            o.sample = json!({"sweep": [lo, hi], "shape": "single authority, stake mutated in place", "example": {"N": hi - 1, "q": cc.quorum_threshold()}});
        }
        _ => {
            // Distributions and boundaries.
            let keys: Vec<PublicKey> = (0..50).map(|_| generate_keypair(&mut rng).0).collect();
            let (unknown, _) = generate_keypair(&mut rng);
            let mut totals: Vec<u64> = Vec::new();
            for k in 0..31u32 {
                for base in [1u64 << k, 3 * (1u64 << k)] {
                    for d in -4i64..=4 {
                        let n = base as i64 + d;
                        if n >= 1 && (n as u64) < (1u64 << 31) {
                            totals.push(n as u64);
                        }
                    }
                }
            }
            for d in 1..=8u64 {
                totals.push((1u64 << 31) - d);
            }
            let count = p.get_u64("samples").unwrap_or(20_000);
            for _ in 0..count {
                let bits = rng.gen_range(1, 32);
                totals.push(rng.gen_range(1u64, 1u64 << bits).min((1u64 << 31) - 1));
            }
            let mut samples = Vec::new();
            for n in totals {
                let shape = rng.gen_range(0, 5);
                let k = rng.gen_range(1, 51usize).min(n as usize).max(1);
                let mut stakes = vec![0u64; k];
                let shape_name = match shape {
                    0 => {
                        for i in 0..k {
                            stakes[i] = n / k as u64;
                        }
                        stakes[0] += n % k as u64;
                        "equal"
                    }
                    1 => {
                        // skewed: random cuts
                        let mut rest = n;
                        for i in 0..k - 1 {
                            let s = if rest > 0 { rng.gen_range(0, rest + 1) / 2 } else { 0 };
                            stakes[i] = s;
                            rest -= s;
                        }
                        stakes[k - 1] = rest;
                        "skewed"
                    }
                    2 => {
                        // one dominant
                        let small = (k as u64 - 1).min(n - 1);
                        for i in 1..k {
                            stakes[i] = if (i as u64) <= small { 1 } else { 0 };
                        }
                        stakes[0] = n - stakes[1..].iter().sum::<u64>();
                        "dominant"
                    }
                    3 => {
                        // many zero-stake members
                        stakes[0] = n;
                        "zero-stake-members"
                    }
                    _ => {
                        stakes[0] = n;
                        for i in (1..k).rev() {
                            if stakes[0] > 1 {
                                stakes[i] = 1;
                                stakes[0] -= 1;
                            }
                        }
                        "ones"
                    }
                };
                debug_assert_eq!(stakes.iter().sum::<u64>(), n);
                let mut order: Vec<usize> = (0..k).collect();
                order.shuffle(&mut rng);
                let cc = CCommittee::new(order.iter().map(|i| (keys[*i], stakes[*i] as u32, sock(*i))).collect(), 1);
                order.shuffle(&mut rng);
                let mc = MCommittee::new(order.iter().map(|i| (keys[*i], stakes[*i] as u32, sock(*i), sock(*i + 50))).collect(), 1);
                let q = cc.quorum_threshold() as u64;
                let st = stakes.clone();
                c17_check(&mut o, n, q, shape_name, &|| format!("stakes {:?}", &st[..st.len().min(12)]));
                if mc.quorum_threshold() as u64 != q {
                    o.report.violate("C17", "consensus-mempool-disagree", format!("N={} ({}): consensus q={} mempool q={}", n, shape_name, q, mc.quorum_threshold()), vec![]);
                }
                for i in 0..k {
                    if cc.stake(&keys[i]) as u64 != stakes[i] || mc.stake(&keys[i]) as u64 != stakes[i] {
                        o.report.violate("C17", "stake-lookup", format!("stake of member {} reported as {} / {} instead of {}", i, cc.stake(&keys[i]), mc.stake(&keys[i]), stakes[i]), vec![]);
                    }
                }
                if cc.stake(&unknown) != 0 || mc.stake(&unknown) != 0 || (k < 50 && (cc.stake(&keys[k]) != 0 || mc.stake(&keys[k]) != 0)) {
                    o.report.violate("C17", "unknown-authority-has-stake", format!("N={} ({}): an unknown key has non-zero stake", n, shape_name), vec![]);
                }
                // The honest authorities alone can form a quorum, and any two quorums overlap in > f.
                o.report.count("C17.distributions_checked", 1);
                o.class(format!("{}/mod3={}/k={}", shape_name, n % 3, k.min(8)));
                if samples.len() < 3 {
                    samples.push(json!({"N": n, "shape": shape_name, "authorities": k, "q": q, "stakes_head": &stakes[..k.min(8)]}));
                }
            }
            o.sample = json!(samples);
        }
    }
    o.report.count("C17.evaluations", o.cases);
    o
}

// =================================================================================================
// C18
fn flip(sig: &Signature, bit: usize) -> Signature {
    let mut bytes = bincode::serialize(sig).unwrap();
    bytes[bit / 8] ^= 1 << (bit % 8);
    bincode::deserialize(&bytes).unwrap()
}

pub fn c18(class: &str, seed: u64, p: &Params) -> Out {
    let mut o = Out::new();
    let mut rng = StdRng::seed_from_u64(seed ^ 0xc18);
    let mut samples = Vec::new();
    match class {
        "sig" => {
            let keys = p.get_u64("keys").unwrap_or(40);
            for kidx in 0..keys {
                let (pk, sk) = generate_keypair(&mut rng);
                let (pk2, _sk2) = generate_keypair(&mut rng);
                let d = rand_digest(&mut rng);
                let sig = Signature::new(&d, &sk);
                o.cases += 1;
                if sig.verify(&d, &pk).is_err() {
                    o.report.violate("C18", "valid-signature-rejected", format!("signature by {} over {} does not verify", pk, d), vec![]);
                }
                if !model::sig_ok(&sig, &d, &pk) {
                    o.report.violate("C18", "valid-signature-rejected-by-dalek", "independent ed25519 check rejects an honest signature".to_string(), vec![]);
                }
                o.class("single/valid".into());
                // other digest (one bit, and random)
                for variant in 0..3 {
                    let mut d2 = d.clone();
                    match variant {
                        0 => d2.0[rng.gen_range(0, 32)] ^= 1 << rng.gen_range(0, 8),
                        1 => d2 = rand_digest(&mut rng),
                        _ => d2.0.reverse(),
                    }
                    if d2 == d {
                        continue;
                    }
                    o.cases += 1;
                    if sig.verify(&d2, &pk).is_ok() {
                        o.report.violate("C18", "signature-verifies-for-other-digest", format!("signature over {} verifies for {}", d, d2), vec![]);
                    }
                    o.class(format!("single/other-digest/{}", variant));
                }
                o.cases += 1;
                if sig.verify(&d, &pk2).is_ok() {
                    o.report.violate("C18", "signature-verifies-for-other-key", "signature verifies under an unrelated key".to_string(), vec![]);
                }
                o.class("single/other-key".into());
                // bit flips: all 512 for a share of the signatures, 32 random ones for the rest
                let all = kidx % 4 == 0;
                let bits: Vec<usize> = if all { (0..512).collect() } else { (0..32).map(|_| rng.gen_range(0, 512)).collect() };
                for b in bits {
                    o.cases += 1;
                    let s2 = flip(&sig, b);
                    if s2.verify(&d, &pk).is_ok() {
                        o.report.violate("C18", "bit-flipped-signature-verifies", format!("signature with bit {} flipped still verifies", b), vec![format!("key {} digest {} bit {}", pk, d, b)]);
                    }
                    o.class(format!("single/bitflip/byte{}", b / 8));
                }
                if samples.len() < 2 {
                    samples.push(json!({"key": pk.encode_base64(), "digest": format!("{:?}", d), "checked": "valid, 3 other digests, other key, bit flips"}));
                }
            }
            // batches
            let sizes: Vec<usize> = vec![0, 1, 2, 3, 4, 5, 7, 8, 16, 25, 40];
            for size in sizes {
                let d = rand_digest(&mut rng);
                let members: Vec<(PublicKey, SecretKey)> = (0..size).map(|_| generate_keypair(&mut rng)).collect();
                let good: Vec<(PublicKey, Signature)> = members.iter().map(|(pk, sk)| (*pk, Signature::new(&d, sk))).collect();
                o.cases += 1;
                if Signature::verify_batch(&d, &good).is_err() {
                    o.report.violate("C18", "valid-batch-rejected", format!("batch of {} honest signatures rejected", size), vec![]);
                }
                o.class(format!("batch/valid/size{}", size));
                for pos in 0..size {
                    for kind in 0..3 {
                        let mut bad = good.clone();
                        match kind {
                            0 => bad[pos].1 = flip(&bad[pos].1, rng.gen_range(0, 512)),
                            1 => bad[pos].1 = Signature::new(&rand_digest(&mut rng), &members[pos].1),
                            _ => bad[pos].0 = generate_keypair(&mut rng).0,
                        }
                        let individually = bad.iter().all(|(k, s)| s.verify(&d, k).is_ok());
                        let batch = Signature::verify_batch(&d, &bad).is_ok();
                        o.cases += 1;
                        if individually != batch {
                            o.report.violate(
                                "C18",
                                "batch-disagrees-with-individual",
                                format!("batch size {} corrupted at {} (kind {}): batch says {}, individual checks say {}", size, pos, kind, batch, individually),
                                vec![],
                            );
                        }
                        if batch {
                            o.report.violate("C18", "corrupted-batch-accepted", format!("batch size {} with a corrupted member at {} (kind {}) accepted", size, pos, kind), vec![]);
                        }
                        o.class(format!("batch/corrupt{}/size{}/pos{}", kind, size, pos));
                    }
                }
            }
        }
        _ => {
            // encodings
            let scratch = Scratch::new("c18");
            let keys = p.get_u64("keys").unwrap_or(60);
            for kidx in 0..keys {
                let (pk, sk) = generate_keypair(&mut rng);
                let sk_text = sk.encode_base64();
                o.cases += 1;
                match PublicKey::decode_base64(&pk.encode_base64()) {
                    Ok(k) if k == pk => {}
                    _ => o.report.violate("C18", "public-key-base64-roundtrip", format!("public key {} does not survive base64", pk), vec![]),
                }
                o.class("pk/base64".into());
                o.cases += 1;
                match SecretKey::decode_base64(&sk_text) {
                    Ok(k) if k.encode_base64() == sk_text => {}
                    _ => o.report.violate("C18", "secret-key-base64-roundtrip", "secret key does not survive base64".to_string(), vec![]),
                }
                o.class("sk/base64".into());
                // bincode and JSON
                o.cases += 2;
                let okb = bincode::serialize(&pk).ok().and_then(|b| bincode::deserialize::<PublicKey>(&b).ok()) == Some(pk);
                let okj = serde_json::to_string(&pk).ok().and_then(|b| serde_json::from_str::<PublicKey>(&b).ok()) == Some(pk);
                if !okb || !okj {
                    o.report.violate("C18", "public-key-serde-roundtrip", format!("public key {} bincode ok={} json ok={}", pk, okb, okj), vec![]);
                }
                o.class("pk/bincode".into());
                o.class("pk/json".into());
                o.cases += 2;
                let okb = bincode::serialize(&sk).ok().and_then(|b| bincode::deserialize::<SecretKey>(&b).ok()).map(|k| k.encode_base64()) == Some(sk_text.clone());
                let okj = serde_json::to_string(&sk).ok().and_then(|b| serde_json::from_str::<SecretKey>(&b).ok()).map(|k| k.encode_base64()) == Some(sk_text.clone());
                if !okb || !okj {
                    o.report.violate("C18", "secret-key-serde-roundtrip", format!("secret key bincode ok={} json ok={}", okb, okj), vec![]);
                }
                o.class("sk/bincode".into());
                o.class("sk/json".into());
                // key file
                let kfile = scratch.path(&format!("key_{}.json", kidx));
                let wrote = Secret { name: pk, secret: SecretKey::decode_base64(&sk_text).unwrap() }.write(&kfile);
                o.cases += 1;
                match (wrote, Secret::read(&kfile)) {
                    (Ok(()), Ok(back)) => {
                        if back.name != pk || back.secret.encode_base64() != sk_text {
                            o.report.violate("C18", "key-file-roundtrip", "key file read back differs".to_string(), vec![]);
                        }
                        let d = rand_digest(&mut rng);
                        let sig = Signature::new(&d, &back.secret);
                        if sig.verify(&d, &back.name).is_err() {
                            o.report.violate("C18", "key-file-key-unusable", "signature by the read-back secret does not verify under the read-back name".to_string(), vec![]);
                        }
                    }
                    (w, r) => o.report.violate("C18", "key-file-io", format!("key file write/read failed: {:?} / {:?}", w.err().map(|e| e.to_string()), r.err().map(|e| e.to_string())), vec![]),
                }
                o.class("file/key".into());
                if samples.len() < 2 {
                    samples.push(json!({"public": pk.encode_base64(), "through": ["base64", "bincode", "json", "key file"]}));
                }
            }
            // committee files
            for c in 0..p.get_u64("committees").unwrap_or(12) {
                let n = rng.gen_range(1, 12);
                let t = Topo::new(n, (0..n).map(|_| rng.gen_range(1, 5)).collect(), seed.wrapping_add(c));
                let committee = NodeCommittee { consensus: t.consensus_committee(0), mempool: t.mempool_committee(0) };
                let cfile = scratch.path(&format!("committee_{}.json", c));
                o.cases += 1;
                match (committee.write(&cfile), NodeCommittee::read(&cfile)) {
                    (Ok(()), Ok(back)) => {
                        for i in 0..n {
                            if back.consensus.stake(&t.names[i]) != t.stakes[i] || back.mempool.stake(&t.names[i]) != t.stakes[i] || back.consensus.address(&t.names[i]) != committee.consensus.address(&t.names[i]) {
                                o.report.violate("C18", "committee-file-roundtrip", format!("authority {} differs after the committee file round trip", i), vec![]);
                            }
                        }
                        if back.consensus.size() != n {
                            o.report.violate("C18", "committee-file-roundtrip", "committee size differs after the file round trip".to_string(), vec![]);
                        }
                    }
                    (w, r) => o.report.violate("C18", "committee-file-io", format!("committee file write/read failed: {:?} / {:?}", w.err().map(|e| e.to_string()), r.err().map(|e| e.to_string())), vec![]),
                }
                o.class(format!("file/committee/n{}", n));
            }
        }
    }
    o.report.count("C18.cases", o.cases);
    o.sample = json!(samples);
    o
}

// =================================================================================================
// Shared message factory for C04 / C19 / C20.
pub struct Factory {
    pub t: Topo,
    pub committee: CCommittee,
}

impl Factory {
    pub fn new(n: usize, stakes: Vec<u32>, seed: u64) -> Self {
        let t = Topo::new(n, stakes, seed);
        let committee = t.consensus_committee(0);
        Self { t, committee }
    }
    pub fn vote(&self, i: usize, hash: &Digest, round: u64) -> Vote {
        let mut v = Vote { hash: hash.clone(), round, author: self.t.names[i], signature: Signature::default() };
        v.signature = self.t.sign(i, &v.digest());
        v
    }
    pub fn qc(&self, hash: &Digest, round: u64, signers: &[usize]) -> QC {
        QC { hash: hash.clone(), round, votes: signers.iter().map(|i| (self.t.names[*i], self.vote(*i, hash, round).signature)).collect() }
    }
    pub fn timeout(&self, i: usize, round: u64, high_qc: QC) -> Timeout {
        let mut t = Timeout { high_qc, round, author: self.t.names[i], signature: Signature::default() };
        t.signature = self.t.sign(i, &t.digest());
        t
    }
    pub fn tc(&self, round: u64, entries: &[(usize, u64)]) -> TC {
        TC {
            round,
            votes: entries
                .iter()
                .map(|(i, hq)| {
                    let t = self.timeout(*i, round, QC { hash: Digest::default(), round: *hq, votes: vec![] });
                    (t.author, t.signature, *hq)
                })
                .collect(),
        }
    }
    pub fn block(&self, author: usize, round: u64, qc: QC, tc: Option<TC>, payload: Vec<Digest>) -> Block {
        let mut b = Block { qc, tc, author: self.t.names[author], round, payload, signature: Signature::default() };
        b.signature = self.t.sign(author, &b.digest());
        b
    }
    /// Smallest prefix of a random order reaching the quorum.
    pub fn quorum(&self, rng: &mut StdRng) -> Vec<usize> {
        let mut order: Vec<usize> = (0..self.t.n).filter(|i| self.t.stakes[*i] > 0).collect();
        order.shuffle(rng);
        let q = self.t.quorum();
        let mut w = 0;
        let mut out = vec![];
        for i in order {
            if w >= q {
                break;
            }
            w += self.t.stakes[i] as u64;
            out.push(i);
        }
        out
    }
}

fn pick_committee(rng: &mut StdRng, seed: u64) -> Factory {
    let n = rng.gen_range(1, 11);
    let stakes: Vec<u32> = match rng.gen_range(0, 4) {
        0 => vec![1; n],
        1 => (0..n).map(|_| rng.gen_range(1, 6)).collect(),
        2 => {
            let mut s: Vec<u32> = (0..n).map(|_| rng.gen_range(0, 3)).collect();
            if s.iter().sum::<u32>() == 0 {
                s[0] = 1;
            }
            s
        }
        _ => {
            let mut s = vec![1; n];
            s[rng.gen_range(0, n)] = n as u32;
            s
        }
    };
    Factory::new(n, stakes, seed)
}

// =================================================================================================
// C20
pub fn c20(_class: &str, seed: u64, p: &Params) -> Out {
    let mut o = Out::new();
    let mut rng = StdRng::seed_from_u64(seed ^ 0xc20);
    let mut samples = Vec::new();
    let f = Factory::new(4, vec![1; 4], seed);
    let rounds = p.get_u64("pairs").unwrap_or(300);
    let differ = |o: &mut Out, kind: &str, field: &str, a: Digest, b: Digest, desc: String| {
        o.cases += 1;
        o.class(format!("{}/{}", kind, field));
        if a == b {
            o.report.violate("C20", format!("{}-digest-ignores-{}", kind, field), format!("two {}s differing only in {} have the same digest: {}", kind, field, desc), vec![]);
        }
    };
    for _ in 0..rounds {
        // Block pairs
        let k = rng.gen_range(0, 6);
        let payload: Vec<Digest> = (0..k).map(|_| rand_digest(&mut rng)).collect();
        let parent = rand_digest(&mut rng);
        let round: u64 = if rng.gen_bool(0.3) { rng.gen() } else { rng.gen_range(1, 1000) };
        let author = rng.gen_range(0, 4);
        let base = f.block(author, round, QC { hash: parent.clone(), round: round.saturating_sub(1), votes: vec![] }, None, payload.clone());
        let bd = base.digest();
        let mut b = base.clone();
        b.author = f.t.names[(author + 1) % 4];
        differ(&mut o, "block", "author", bd.clone(), b.digest(), format!("round {}", round));
        for (name, r2) in [("round+1", round.wrapping_add(1)), ("round-1", round.wrapping_sub(1)), ("round-byteswapped", round.swap_bytes()), ("round<<8", round.rotate_left(8))] {
            if r2 == round {
                continue;
            }
            let mut b = base.clone();
            b.round = r2;
            differ(&mut o, "block", name, bd.clone(), b.digest(), format!("rounds {} vs {}", round, r2));
        }
        for i in 0..payload.len() {
            let mut b = base.clone();
            b.payload[i] = rand_digest(&mut rng);
            differ(&mut o, "block", "payload-element", bd.clone(), b.digest(), format!("position {}", i));
            if i + 1 < payload.len() {
                let mut b = base.clone();
                b.payload.swap(i, i + 1);
                differ(&mut o, "block", "payload-order", bd.clone(), b.digest(), format!("positions {} and {}", i, i + 1));
            }
        }
        {
            let mut b = base.clone();
            b.payload.push(rand_digest(&mut rng));
            differ(&mut o, "block", "payload-extended", bd.clone(), b.digest(), String::new());
            // boundary: last payload digest moved into the parent position and vice versa
            let mut b = base.clone();
            b.payload.push(parent.clone());
            differ(&mut o, "block", "payload-parent-boundary-push", bd.clone(), b.digest(), String::new());
            if let Some(last) = base.payload.last().cloned() {
                let mut b = base.clone();
                b.payload.pop();
                b.qc.hash = last;
                differ(&mut o, "block", "payload-parent-boundary-pop", bd.clone(), b.digest(), String::new());
                let mut b = base.clone();
                b.payload.pop();
                differ(&mut o, "block", "payload-truncated", bd.clone(), b.digest(), String::new());
            }
        }
        {
            let mut b = base.clone();
            b.qc.hash = rand_digest(&mut rng);
            differ(&mut o, "block", "parent", bd.clone(), b.digest(), String::new());
        }
        {
            // the same boundaries for a block that extends genesis (the all-zero parent is still a parent)
            let g = f.block(author, round, QC::genesis(), None, payload.clone());
            let gd = g.digest();
            let mut b = g.clone();
            b.qc.hash = rand_digest(&mut rng);
            differ(&mut o, "block", "parent-genesis-vs-other", gd.clone(), b.digest(), String::new());
            if let Some(last) = g.payload.last().cloned() {
                let mut b = g.clone();
                b.payload.pop();
                b.qc = QC { hash: last, round: round.saturating_sub(1), votes: vec![] };
                differ(&mut o, "block", "payload-parent-boundary-on-genesis", gd.clone(), b.digest(), String::new());
            }
            let mut b = g.clone();
            b.payload.push(Digest::default());
            differ(&mut o, "block", "payload-extended-by-zero-digest-on-genesis", gd.clone(), b.digest(), String::new());
            // an empty block on genesis vs. a vote whose "block hash" is the author's key bytes
            let e = f.block(author, round, QC::genesis(), None, vec![]);
            let fake = Vote { hash: Digest(e.author.0), round, author: e.author, signature: e.signature.clone() };
            o.cases += 1;
            o.class("cross-kind/empty-genesis-block-vs-vote".into());
            if e.digest() == fake.digest() {
                o.report.violate("C20", "block-and-vote-digests-coincide", "an empty block extending genesis and a vote for (author key bytes, same round) have the same digest: the proposal signature is a valid vote signature".to_string(), vec![]);
            }
        }
        // Votes / QCs
        let h = rand_digest(&mut rng);
        let v = f.vote(0, &h, round);
        let mut v2 = v.clone();
        v2.hash = rand_digest(&mut rng);
        differ(&mut o, "vote", "block", v.digest(), v2.digest(), String::new());
        let mut v2 = v.clone();
        v2.round = round.wrapping_add(1);
        differ(&mut o, "vote", "round", v.digest(), v2.digest(), String::new());
        let q1 = QC { hash: h.clone(), round, votes: vec![] };
        differ(&mut o, "qc", "block", q1.digest(), QC { hash: rand_digest(&mut rng), round, votes: vec![] }.digest(), String::new());
        differ(&mut o, "qc", "round", q1.digest(), QC { hash: h.clone(), round: round.swap_bytes() ^ 1, votes: vec![] }.digest(), String::new());
        o.cases += 1;
        o.class("vote/equals-qc".into());
        if v.digest() != q1.digest() {
            o.report.violate("C20", "vote-and-qc-digest-differ", "a vote and the QC for the same (block, round) hash differently, so votes cannot be aggregated".to_string(), vec![]);
        }
        // Timeouts
        let hq: u64 = rng.gen_range(0, round.max(1));
        let t = f.timeout(1, round, QC { hash: h.clone(), round: hq, votes: vec![] });
        let mut t2 = t.clone();
        t2.round = round.wrapping_add(1);
        differ(&mut o, "timeout", "round", t.digest(), t2.digest(), String::new());
        let mut t2 = t.clone();
        t2.high_qc.round = hq + 1;
        differ(&mut o, "timeout", "high-qc-round", t.digest(), t2.digest(), String::new());
        if round != hq {
            let mut t2 = t.clone();
            t2.round = hq;
            t2.high_qc.round = round;
            differ(&mut o, "timeout", "rounds-swapped", t.digest(), t2.digest(), String::new());
        }
        // Round trips: bincode, wire enum, store
        for m in [ConsensusMessage::Propose(base.clone()), ConsensusMessage::Vote(v.clone()), ConsensusMessage::Timeout(t.clone())] {
            o.cases += 1;
            let bytes = bincode::serialize(&m).unwrap();
            let back: ConsensusMessage = match bincode::deserialize(&bytes) {
                Ok(x) => x,
                Err(e) => {
                    o.report.violate("C20", "wire-roundtrip-fails", format!("a serialised message does not deserialise: {}", e), vec![]);
                    continue;
                }
            };
            let (d0, d1, ok) = match (&m, &back) {
                (ConsensusMessage::Propose(a), ConsensusMessage::Propose(b)) => (a.digest(), b.digest(), b.signature.verify(&b.digest(), &b.author).is_ok()),
                (ConsensusMessage::Vote(a), ConsensusMessage::Vote(b)) => (a.digest(), b.digest(), b.verify(&f.committee).is_ok()),
                (ConsensusMessage::Timeout(a), ConsensusMessage::Timeout(b)) => (a.digest(), b.digest(), b.signature.verify(&b.digest(), &b.author).is_ok()),
                _ => (Digest::default(), rand_digest(&mut rng), false),
            };
            o.class("roundtrip/wire".into());
            if d0 != d1 || !ok {
                o.report.violate("C20", "wire-roundtrip-changes-message", format!("digest equal: {}, still verifies: {}", d0 == d1, ok), vec![]);
            }
            if bincode::serialize(&back).unwrap() != bytes {
                o.report.violate("C20", "wire-roundtrip-not-canonical", "re-serialising a decoded message gives different bytes".to_string(), vec![]);
            }
        }
        if samples.len() < 2 {
            samples.push(json!({"block": format!("{:?}", base), "fields_varied": ["author", "round", "payload element/order/length", "payload-parent boundary", "parent"]}));
        }
    }
    // Full blocks with certificates through bincode (the store path is covered by the sync-reply monitor of C07).
    for _ in 0..p.get_u64("full").unwrap_or(40) {
        let signers = f.quorum(&mut rng);
        let h = rand_digest(&mut rng);
        let r0 = rng.gen_range(1, 1000);
        let qc = f.qc(&h, r0, &signers);
        let tc = if rng.gen_bool(0.5) { Some(f.tc(r0 + 1, &signers.iter().map(|i| (*i, rng.gen_range(0, r0 + 1))).collect::<Vec<_>>())) } else { None };
        let round = if tc.is_some() { r0 + 2 } else { r0 + 1 };
        let b = f.block((round % 4) as usize, round, qc, tc, (0..rng.gen_range(0, 100)).map(|_| rand_digest(&mut rng)).collect());
        o.cases += 1;
        o.class(format!("roundtrip/full-block/tc={}", b.tc.is_some()));
        let bytes = bincode::serialize(&b).unwrap();
        match bincode::deserialize::<Block>(&bytes) {
            Ok(back) => {
                if back.digest() != b.digest() || back.verify(&f.committee).is_err() || b.verify(&f.committee).is_err() {
                    o.report.violate("C20", "block-roundtrip-changes-message", "a block with certificates no longer verifies / hashes the same after a bincode round trip".to_string(), vec![]);
                }
                if bincode::serialize(&back).unwrap() != bytes {
                    o.report.violate("C20", "wire-roundtrip-not-canonical", "re-serialising a decoded block gives different bytes".to_string(), vec![]);
                }
            }
            Err(e) => o.report.violate("C20", "wire-roundtrip-fails", format!("{}", e), vec![]),
        }
    }
    // Small-alphabet cross-kind collision search.
    let ds: Vec<Digest> = vec![Digest([0u8; 32]), Digest([1u8; 32]), Digest([0xffu8; 32]), {
        let mut x = [0u8; 32];
        x[0] = 1;
        Digest(x)
    }];
    let rs: Vec<u64> = vec![0, 1, 2, 1 << 8, 1 << 32, 0x0101_0101_0101_0101, u64::MAX];
    let mut by_kind: HashMap<&'static str, HashMap<Digest, String>> = HashMap::new();
    for h in &ds {
        for r in &rs {
            by_kind.entry("vote/qc").or_default().insert(QC { hash: h.clone(), round: *r, votes: vec![] }.digest(), format!("vote({:?},{})", &h.0[..2], r));
        }
    }
    for r in &rs {
        for hq in &rs {
            let t = Timeout { high_qc: QC { hash: Digest::default(), round: *hq, votes: vec![] }, round: *r, author: PublicKey::default(), signature: Signature::default() };
            by_kind.entry("timeout/tc").or_default().insert(t.digest(), format!("timeout({}, {})", r, hq));
        }
    }
    for a in &ds {
        for r in &rs {
            for parent in &ds {
                for pl in 0..3usize {
                    for pd in &ds {
                        let b = Block { qc: QC { hash: parent.clone(), round: 0, votes: vec![] }, tc: None, author: PublicKey(a.0), round: *r, payload: vec![pd.clone(); pl], signature: Signature::default() };
                        by_kind.entry("block").or_default().insert(b.digest(), format!("block(author {:?}, r{}, payload {}x{:?}, parent {:?})", &a.0[..2], r, pl, &pd.0[..2], &parent.0[..2]));
                    }
                }
            }
        }
    }
    let kinds: Vec<&'static str> = by_kind.keys().cloned().collect();
    let mut compared = 0u64;
    for i in 0..kinds.len() {
        for j in (i + 1)..kinds.len() {
            let (a, b) = (&by_kind[kinds[i]], &by_kind[kinds[j]]);
            compared += (a.len() * b.len()) as u64;
            for (d, what) in a {
                if let Some(other) = b.get(d) {
                    o.report.violate("C20", "cross-kind-digest-collision", format!("{} and {} have the same digest", what, other), vec![]);
                }
            }
            o.class(format!("cross-kind/{}-{}", kinds[i], kinds[j]));
        }
    }
    // Distinctness inside the alphabet (each kind): number of distinct digests = number of distinct field tuples.
    let expect: HashMap<&str, usize> = [("vote/qc", ds.len() * rs.len()), ("timeout/tc", rs.len() * rs.len())].into_iter().collect();
    for (k, e) in expect {
        o.cases += 1;
        if by_kind[k].len() != e {
            o.report.violate("C20", "alphabet-collision", format!("{} distinct {} messages give only {} digests", e, k, by_kind[k].len()), vec![]);
        }
    }
    o.cases += compared;
    o.report.count("C20.cross_kind_pairs_compared", compared);
    o.report.count("C20.cases", o.cases);
    // Signature transplant across kinds must fail verification.
    {
        let h = rand_digest(&mut rng);
        let v = f.vote(0, &h, 5);
        let t = f.timeout(0, 5, QC::genesis());
        let b = f.block(1, 5, QC::genesis(), None, vec![]);
        let mut v2 = v.clone();
        v2.signature = t.signature.clone();
        let mut t2 = t.clone();
        t2.signature = v.signature.clone();
        let mut b2 = b.clone();
        b2.signature = f.vote(1, &b.digest(), 5).signature;
        o.cases += 3;
        o.class("transplant/kinds".into());
        if v2.verify(&f.committee).is_ok() || t2.verify(&f.committee).is_ok() || b2.verify(&f.committee).is_ok() {
            o.report.violate("C20", "signature-transplant-across-kinds", "a signature made for one message kind verifies on another kind".to_string(), vec![]);
        }
    }
    o.sample = json!(samples);
    o
}

// =================================================================================================
// C09-1 leader function
pub fn c09(_class: &str, seed: u64, p: &Params) -> Out {
    let mut o = Out::new();
    let mut rng = StdRng::seed_from_u64(seed ^ 0xc09);
    let mut samples = Vec::new();
    for _ in 0..p.get_u64("committees").unwrap_or(60) {
        let n = rng.gen_range(1, 21);
        let keys: Vec<PublicKey> = (0..n).map(|_| generate_keypair(&mut rng).0).collect();
        let mut sorted = keys.clone();
        sorted.sort();
        let build = |rng: &mut StdRng| {
            let mut order: Vec<usize> = (0..n).collect();
            order.shuffle(rng);
            // stakes include zero-stake members: the proposer is derived from the committee's keys alone
            let zero_some = rng.gen_bool(0.4);
            let mut info: Vec<(PublicKey, u32, std::net::SocketAddr)> = order
                .iter()
                .map(|i| (keys[*i], if zero_some && rng.gen_bool(0.3) { 0 } else { rng.gen_range(1, 10) }, sock(rng.gen_range(0, 100))))
                .collect();
            if rng.gen_bool(0.3) {
                // duplicated insertion of one member
                let d = info[0].clone();
                info.push(d);
            }
            LeaderElector::new(CCommittee::new(info, 1))
        };
        let a = build(&mut rng);
        let b = build(&mut rng);
        let mut rounds: Vec<u64> = (0..(3 * n as u64 + 1)).collect();
        for _ in 0..20 {
            rounds.push(rng.gen());
        }
        for d in 0..(n as u64 + 2) {
            rounds.push(u64::MAX - d);
        }
        for r in &rounds {
            o.cases += 1;
            let la = a.get_leader(*r);
            let lb = b.get_leader(*r);
            // `usize` is 64 bits on every supported target: round % n in u64 arithmetic.
            let expect = sorted[(*r % n as u64) as usize];
            if la != expect || lb != expect {
                o.report.violate(
                    "C09",
                    "leader-function",
                    format!("round {} with {} authorities: leader {} / {} instead of the round-robin over sorted keys {}", r, n, la, lb, expect),
                    vec![],
                );
            }
        }
        // every authority exactly once per window of n consecutive rounds
        for start in [0u64, 1, rng.gen_range(0, 1 << 40), u64::MAX - 2 * n as u64] {
            o.cases += 1;
            let set: HashSet<PublicKey> = (0..n as u64).map(|k| a.get_leader(start + k)).collect();
            if set.len() != n {
                o.report.violate("C09", "leader-rotation", format!("{} authorities but only {} distinct leaders in rounds {}..{}", n, set.len(), start, start + n as u64), vec![]);
            }
        }
        o.class(format!("n={}", n));
        if samples.len() < 2 {
            samples.push(json!({"n": n, "rounds_checked": rounds.len(), "two committee objects with permuted / duplicated insertion order": true}));
        }
    }
    o.report.count("C09.leader_evaluations", o.cases);
    o.sample = json!(samples);
    o
}

// =================================================================================================
// C19-1 aggregator against a reference model
pub fn c19(_class: &str, seed: u64, p: &Params) -> Out {
    let mut o = Out::new();
    let mut rng = StdRng::seed_from_u64(seed ^ 0xc19);
    let mut sc = SigCache::default();
    let mut samples = Vec::new();
    for stream in 0..p.get_u64("streams").unwrap_or(40) {
        let f = pick_committee(&mut rng, seed.wrapping_add(stream));
        let q = f.t.quorum();
        let mut agg = Aggregator::new(f.committee.clone());
        // model
        let mut mv: HashMap<(u64, Digest), (Vec<usize>, u64, bool)> = HashMap::new();
        let mut mt: HashMap<u64, (Vec<(usize, u64)>, u64, bool)> = HashMap::new();
        let hashes: Vec<Digest> = (0..3).map(|_| rand_digest(&mut rng)).collect();
        let base_round: u64 = rng.gen_range(1, 50);
        let mut trace: Vec<String> = Vec::new();
        for _step in 0..rng.gen_range(20, 200) {
            let round = base_round + rng.gen_range(0, 4);
            // Core verifies votes / timeouts (stake > 0, signature) before they reach the aggregator.
            let voters: Vec<usize> = (0..f.t.n).filter(|x| f.t.stakes[*x] > 0).collect();
            let i = voters[rng.gen_range(0, voters.len())];
            match rng.gen_range(0, 10) {
                0..=5 => {
                    let h = hashes[rng.gen_range(0, hashes.len())].clone();
                    let v = f.vote(i, &h, round);
                    let e = mv.entry((round, h.clone())).or_insert((vec![], 0, false));
                    let dup = e.0.contains(&i);
                    let res = agg.add_vote(v);
                    o.cases += 1;
                    trace.push(format!("vote a{} r{} h{}", i, round, hashes.iter().position(|x| *x == h).unwrap()));
                    if dup {
                        o.class("vote/duplicate".into());
                        if !matches!(res, Err(_)) {
                            o.report.violate("C19", "duplicate-vote-accepted", format!("a second vote of authority {} for the same block and round was not rejected", i), trace.iter().rev().take(12).cloned().collect());
                        }
                        continue;
                    }
                    e.0.push(i);
                    e.1 += f.t.stakes[i] as u64;
                    let crossing = e.1 >= q && !e.2;
                    if crossing {
                        e.2 = true;
                    }
                    match res {
                        Ok(Some(qc)) => {
                            o.class(format!("qc/crossing/signers{}", qc.votes.len().min(8)));
                            o.report.count("C19.qcs_checked", 1);
                            let mut problems = vec![];
                            if !crossing {
                                problems.push(format!("QC returned with model weight {} (q={}, already made={})", e.1, q, e.2));
                            }
                            if qc.hash != h || qc.round != round {
                                problems.push("QC speaks about another block/round".into());
                            }
                            let want: Vec<PublicKey> = e.0.iter().map(|x| f.t.names[*x]).collect();
                            let got: Vec<PublicKey> = qc.votes.iter().map(|x| x.0).collect();
                            if want != got {
                                problems.push("signer list differs from the distinct authors so far".into());
                            }
                            if qc.verify(&f.committee).is_err() {
                                problems.push("does not pass QC::verify".into());
                            }
                            if let Err(e2) = qc_valid(&f.t, &mut sc, &qc) {
                                problems.push(format!("independent check: {}", e2));
                            }
                            if !problems.is_empty() {
                                o.report.violate("C19", "aggregator-qc", problems.join("; "), trace.iter().rev().take(12).cloned().collect());
                            }
                        }
                        Ok(None) => {
                            if crossing {
                                o.report.violate("C19", "aggregator-missed-quorum", format!("weight {} >= q {} but no QC was returned", e.1, q), trace.iter().rev().take(12).cloned().collect());
                            }
                            o.class("vote/accumulating".into());
                        }
                        Err(e2) => {
                            o.report.violate("C19", "aggregator-rejected-fresh-vote", format!("first vote of authority {} rejected: {}", i, e2), trace.iter().rev().take(12).cloned().collect());
                        }
                    }
                }
                6..=8 => {
                    let hq = rng.gen_range(0, round);
                    let t = f.timeout(i, round, QC { hash: Digest::default(), round: hq, votes: vec![] });
                    let e = mt.entry(round).or_insert((vec![], 0, false));
                    let dup = e.0.iter().any(|(a, _)| *a == i);
                    let res = agg.add_timeout(t);
                    o.cases += 1;
                    trace.push(format!("timeout a{} r{} hq{}", i, round, hq));
                    if dup {
                        o.class("timeout/duplicate".into());
                        if !matches!(res, Err(_)) {
                            o.report.violate("C19", "duplicate-timeout-accepted", format!("a second timeout of authority {} for round {} was not rejected", i, round), trace.iter().rev().take(12).cloned().collect());
                        }
                        continue;
                    }
                    e.0.push((i, hq));
                    e.1 += f.t.stakes[i] as u64;
                    let crossing = e.1 >= q && !e.2;
                    if crossing {
                        e.2 = true;
                    }
                    match res {
                        Ok(Some(tc)) => {
                            o.class(format!("tc/crossing/signers{}", tc.votes.len().min(8)));
                            o.report.count("C19.tcs_checked", 1);
                            let mut problems = vec![];
                            if !crossing {
                                problems.push(format!("TC returned with model weight {} (q={}, already made={})", e.1, q, e.2));
                            }
                            let want: Vec<(PublicKey, u64)> = e.0.iter().map(|(a, h)| (f.t.names[*a], *h)).collect();
                            let got: Vec<(PublicKey, u64)> = tc.votes.iter().map(|x| (x.0, x.2)).collect();
                            if tc.round != round || want != got {
                                problems.push("TC content differs from the distinct timeouts so far".into());
                            }
                            if tc.verify(&f.committee).is_err() {
                                problems.push("does not pass TC::verify".into());
                            }
                            if let Err(e2) = tc_valid(&f.t, &mut sc, &tc) {
                                problems.push(format!("independent check: {}", e2));
                            }
                            if !problems.is_empty() {
                                o.report.violate("C19", "aggregator-tc", problems.join("; "), trace.iter().rev().take(12).cloned().collect());
                            }
                        }
                        Ok(None) => {
                            if crossing {
                                o.report.violate("C19", "aggregator-missed-quorum", format!("timeout weight {} >= q {} but no TC was returned", e.1, q), trace.iter().rev().take(12).cloned().collect());
                            }
                            o.class("timeout/accumulating".into());
                        }
                        Err(e2) => {
                            o.report.violate("C19", "aggregator-rejected-fresh-timeout", format!("first timeout of authority {} rejected: {}", i, e2), trace.iter().rev().take(12).cloned().collect());
                        }
                    }
                }
                _ => {
                    let r = base_round + rng.gen_range(0, 3);
                    agg.cleanup(&r);
                    mv.retain(|(round, _), _| *round >= r);
                    mt.retain(|round, _| *round >= r);
                    trace.push(format!("cleanup {}", r));
                    o.class("cleanup".into());
                }
            }
        }
        if samples.len() < 2 {
            samples.push(json!({"n": f.t.n, "stakes": f.t.stakes, "q": q, "trace_head": trace.iter().take(25).collect::<Vec<_>>() }));
        }
    }
    o.report.count("C19.aggregator_cases", o.cases);
    o.sample = json!(samples);
    o
}

// =================================================================================================
// C04-1 verify functions: by-construction verdict table
pub fn c04(_class: &str, seed: u64, p: &Params) -> Out {
    let mut o = Out::new();
    let mut rng = StdRng::seed_from_u64(seed ^ 0xc04);
    let mut sc = SigCache::default();
    let mut samples: Vec<serde_json::Value> = Vec::new();
    let mut table: HashMap<String, (u64, u64)> = HashMap::new(); // class -> (accepted, rejected)
    let mut expect = |o: &mut Out, table: &mut HashMap<String, (u64, u64)>, class: String, valid: bool, got: Result<(), String>, detail: String| {
        o.cases += 1;
        o.class(class.clone());
        let e = table.entry(class.clone()).or_insert((0, 0));
        if got.is_ok() {
            e.0 += 1;
        } else {
            e.1 += 1;
        }
        if valid && got.is_err() {
            o.report.violate("C04", format!("valid-rejected:{}", class), format!("a valid message was rejected ({}): {}", got.err().unwrap(), detail), vec![]);
        } else if !valid && got.is_ok() {
            o.report.violate("C04", format!("invalid-accepted:{}", class), format!("an invalid message was accepted: {}", detail), vec![]);
        }
    };
    let es = |r: consensus::verif::ConsensusResult<()>| r.map_err(|e| e.to_string());
    for round_idx in 0..p.get_u64("committees").unwrap_or(12) {
        let f = pick_committee(&mut rng, seed.wrapping_mul(31).wrapping_add(round_idx));
        let n = f.t.n;
        let members: Vec<usize> = (0..n).filter(|i| f.t.stakes[*i] > 0).collect();
        let zero: Vec<usize> = (0..n).filter(|i| f.t.stakes[*i] == 0).collect();
        let outsider = generate_keypair(&mut rng);
        let c = &f.committee;
        let h = rand_digest(&mut rng);
        let round: u64 = rng.gen_range(2, 1000);
        let signers = f.quorum(&mut rng);
        let desc = format!("n={} stakes={:?} signers={:?}", n, f.t.stakes, signers);
        // ---- votes
        let a = *members.choose(&mut rng).unwrap();
        let v = f.vote(a, &h, round);
        expect(&mut o, &mut table, "vote/valid".into(), true, es(v.verify(c)), desc.clone());
        for bit in (0..512).step_by(if round_idx == 0 { 1 } else { 37 }) {
            let mut v2 = v.clone();
            v2.signature = flip(&v.signature, bit);
            expect(&mut o, &mut table, "vote/sig-bitflip".into(), false, es(v2.verify(c)), format!("bit {}", bit));
        }
        let mut v2 = v.clone();
        v2.round += 1;
        expect(&mut o, &mut table, "vote/round-altered".into(), false, es(v2.verify(c)), desc.clone());
        let mut v2 = v.clone();
        v2.hash = rand_digest(&mut rng);
        expect(&mut o, &mut table, "vote/hash-altered".into(), false, es(v2.verify(c)), desc.clone());
        if members.len() > 1 {
            let mut v2 = v.clone();
            v2.author = f.t.names[*members.iter().find(|x| **x != a).unwrap()];
            expect(&mut o, &mut table, "vote/author-altered".into(), false, es(v2.verify(c)), desc.clone());
        }
        {
            let mut v2 = v.clone();
            v2.author = outsider.0;
            v2.signature = Signature::new(&v2.digest(), &outsider.1);
            expect(&mut o, &mut table, "vote/non-member".into(), false, es(v2.verify(c)), desc.clone());
        }
        if let Some(z) = zero.first() {
            let v2 = f.vote(*z, &h, round);
            expect(&mut o, &mut table, "vote/zero-stake-member".into(), false, es(v2.verify(c)), desc.clone());
        }
        {
            // transplant: signature of a vote for another round / of a timeout
            let mut v2 = v.clone();
            v2.signature = f.vote(a, &h, round + 1).signature;
            expect(&mut o, &mut table, "vote/sig-from-other-round".into(), false, es(v2.verify(c)), desc.clone());
            let mut v2 = v.clone();
            v2.signature = f.timeout(a, round, QC::genesis()).signature;
            expect(&mut o, &mut table, "vote/sig-from-timeout".into(), false, es(v2.verify(c)), desc.clone());
        }
        // ---- QCs
        let qc = f.qc(&h, round, &signers);
        expect(&mut o, &mut table, "qc/valid".into(), true, es(qc.verify(c)), desc.clone());
        if qc_valid(&f.t, &mut sc, &qc).is_err() {
            o.report.violate("C04", "oracle-disagreement", "independent checker rejects a by-construction valid QC".to_string(), vec![]);
        }
        for pos in 0..qc.votes.len() {
            let mut q2 = qc.clone();
            q2.votes[pos].1 = flip(&q2.votes[pos].1, rng.gen_range(0, 512));
            expect(&mut o, &mut table, "qc/member-sig-bitflip".into(), false, es(q2.verify(c)), format!("{} position {}", desc, pos));
            let mut q2 = qc.clone();
            q2.votes[pos].1 = f.vote(signers[pos], &h, round + 1).signature;
            expect(&mut o, &mut table, "qc/member-sig-other-round".into(), false, es(q2.verify(c)), format!("{} position {}", desc, pos));
            let mut q2 = qc.clone();
            q2.votes[pos].1 = f.tc(round, &[(signers[pos], round)]).votes[0].1.clone();
            expect(&mut o, &mut table, "qc/member-sig-from-tc-entry".into(), false, es(q2.verify(c)), format!("{} position {}", desc, pos));
        }
        {
            let mut q2 = qc.clone();
            q2.round += 1;
            expect(&mut o, &mut table, "qc/round-altered".into(), false, es(q2.verify(c)), desc.clone());
            let mut q2 = qc.clone();
            q2.hash = rand_digest(&mut rng);
            expect(&mut o, &mut table, "qc/hash-altered".into(), false, es(q2.verify(c)), desc.clone());
            // below quorum: drop the last signer (signers is a minimal prefix)
            let mut q2 = qc.clone();
            q2.votes.pop();
            expect(&mut o, &mut table, "qc/below-quorum".into(), false, es(q2.verify(c)), desc.clone());
            // repeat a signer to reach the weight
            if qc.votes.len() >= 2 {
                let mut q2 = qc.clone();
                let k = q2.votes.len() - 1;
                q2.votes[k] = q2.votes[0].clone();
                expect(&mut o, &mut table, "qc/repeated-signer".into(), false, es(q2.verify(c)), desc.clone());
            }
            let mut q2 = qc.clone();
            q2.votes.push(q2.votes[0].clone());
            expect(&mut o, &mut table, "qc/repeated-signer-extra".into(), false, es(q2.verify(c)), desc.clone());
            // non-member with a signature valid under its own key
            let mut q2 = qc.clone();
            let k = q2.votes.len() - 1;
            q2.votes[k] = (outsider.0, Signature::new(&q2.digest(), &outsider.1));
            expect(&mut o, &mut table, "qc/non-member-substituted".into(), false, es(q2.verify(c)), desc.clone());
            let mut q2 = qc.clone();
            q2.votes.push((outsider.0, Signature::new(&q2.digest(), &outsider.1)));
            expect(&mut o, &mut table, "qc/non-member-added".into(), false, es(q2.verify(c)), desc.clone());
            if let Some(z) = zero.first() {
                let mut q2 = qc.clone();
                q2.votes.push((f.t.names[*z], f.vote(*z, &h, round).signature));
                expect(&mut o, &mut table, "qc/zero-stake-member-added".into(), false, es(q2.verify(c)), desc.clone());
            }
            // re-weighted committee: same signers fall below the quorum
            let mut stakes2 = f.t.stakes.clone();
            let outside: Vec<usize> = (0..n).filter(|i| !signers.contains(i)).collect();
            if let Some(x) = outside.first() {
                stakes2[*x] += 3 * f.t.total_stake() as u32;
                let c2 = CCommittee::new((0..n).map(|j| (f.t.names[j], stakes2[j], sock(j))).collect(), 1);
                expect(&mut o, &mut table, "qc/committee-reweighted".into(), false, es(qc.verify(&c2)), desc.clone());
            }
            // empty
            let q2 = QC { hash: h.clone(), round, votes: vec![] };
            expect(&mut o, &mut table, "qc/empty".into(), false, es(q2.verify(c)), desc.clone());
        }
        // ---- timeouts
        let hq_round = round - 1;
        let high = f.qc(&rand_digest(&mut rng), hq_round, &signers);
        let to = f.timeout(a, round, high.clone());
        expect(&mut o, &mut table, "timeout/valid".into(), true, es(to.verify(c)), desc.clone());
        expect(&mut o, &mut table, "timeout/valid-genesis-qc".into(), true, es(f.timeout(a, round, QC::genesis()).verify(c)), desc.clone());
        {
            let mut t2 = to.clone();
            t2.signature = flip(&t2.signature, rng.gen_range(0, 512));
            expect(&mut o, &mut table, "timeout/sig-bitflip".into(), false, es(t2.verify(c)), desc.clone());
            let mut t2 = to.clone();
            t2.round += 1;
            expect(&mut o, &mut table, "timeout/round-altered".into(), false, es(t2.verify(c)), desc.clone());
            let mut t2 = to.clone();
            t2.high_qc = f.qc(&high.hash, hq_round - 1, &signers);
            expect(&mut o, &mut table, "timeout/high-qc-round-altered".into(), false, es(t2.verify(c)), desc.clone());
            let mut t2 = to.clone();
            t2.high_qc.votes.pop();
            expect(&mut o, &mut table, "timeout/embedded-qc-below-quorum".into(), false, es(t2.verify(c)), desc.clone());
            let mut t2 = to.clone();
            t2.high_qc.votes[0].1 = flip(&t2.high_qc.votes[0].1, rng.gen_range(0, 512));
            expect(&mut o, &mut table, "timeout/embedded-qc-bad-sig".into(), false, es(t2.verify(c)), desc.clone());
            let mut t2 = to.clone();
            t2.signature = f.vote(a, &high.hash, round).signature;
            expect(&mut o, &mut table, "timeout/sig-from-vote".into(), false, es(t2.verify(c)), desc.clone());
            let mut t2 = to.clone();
            t2.author = outsider.0;
            t2.signature = Signature::new(&t2.digest(), &outsider.1);
            expect(&mut o, &mut table, "timeout/non-member".into(), false, es(t2.verify(c)), desc.clone());
        }
        // ---- TCs
        let entries: Vec<(usize, u64)> = signers.iter().map(|i| (*i, rng.gen_range(0, round))).collect();
        let tc = f.tc(round, &entries);
        expect(&mut o, &mut table, "tc/valid".into(), true, es(tc.verify(c)), desc.clone());
        if tc_valid(&f.t, &mut sc, &tc).is_err() {
            o.report.violate("C04", "oracle-disagreement", "independent checker rejects a by-construction valid TC".to_string(), vec![]);
        }
        for pos in 0..tc.votes.len() {
            let mut t2 = tc.clone();
            t2.votes[pos].1 = flip(&t2.votes[pos].1, rng.gen_range(0, 512));
            expect(&mut o, &mut table, "tc/member-sig-bitflip".into(), false, es(t2.verify(c)), format!("{} position {}", desc, pos));
            let mut t2 = tc.clone();
            t2.votes[pos].2 += 1;
            expect(&mut o, &mut table, "tc/member-high-qc-round-altered".into(), false, es(t2.verify(c)), format!("{} position {}", desc, pos));
            let mut t2 = tc.clone();
            t2.votes[pos].1 = f.vote(signers[pos], &h, round).signature;
            expect(&mut o, &mut table, "tc/member-sig-from-vote".into(), false, es(t2.verify(c)), format!("{} position {}", desc, pos));
        }
        {
            let mut t2 = tc.clone();
            t2.round += 1;
            expect(&mut o, &mut table, "tc/round-altered".into(), false, es(t2.verify(c)), desc.clone());
            let mut t2 = tc.clone();
            t2.votes.pop();
            expect(&mut o, &mut table, "tc/below-quorum".into(), false, es(t2.verify(c)), desc.clone());
            if tc.votes.len() >= 2 {
                let mut t2 = tc.clone();
                let k = t2.votes.len() - 1;
                t2.votes[k] = t2.votes[0].clone();
                expect(&mut o, &mut table, "tc/repeated-signer".into(), false, es(t2.verify(c)), desc.clone());
            }
            let mut t2 = tc.clone();
            let k = t2.votes.len() - 1;
            let fake = Timeout { high_qc: QC { hash: Digest::default(), round: 0, votes: vec![] }, round, author: outsider.0, signature: Signature::default() };
            t2.votes[k] = (outsider.0, Signature::new(&fake.digest(), &outsider.1), 0);
            expect(&mut o, &mut table, "tc/non-member-substituted".into(), false, es(t2.verify(c)), desc.clone());
            let t2 = TC { round, votes: vec![] };
            expect(&mut o, &mut table, "tc/empty".into(), false, es(t2.verify(c)), desc.clone());
            // One member signing several timeouts of this round that report different high-QC rounds
            // (every entry validly signed): its stake counts once, whatever the entries say.
            let q = f.t.quorum();
            let s0 = signers[0];
            let st0 = f.t.stakes[s0] as u64;
            if round >= 2 && st0 > 0 && st0 < q {
                // (a) a single member alone, repeated until the naive sum of stakes reaches the quorum
                let k = ((q + st0 - 1) / st0) as usize;
                if k as u64 <= round && k <= 64 {
                    let entries: Vec<(usize, u64)> = (0..k).map(|j| (s0, j as u64)).collect();
                    let t2 = f.tc(round, &entries);
                    expect(&mut o, &mut table, "tc/one-member-many-high-qc-rounds".into(), false, es(t2.verify(c)), desc.clone());
                }
                // (b) the last signer of a valid TC replaced by a second, different timeout of the first
                if tc.votes.len() >= 2 {
                    let last = *signers.last().unwrap();
                    let distinct: u64 = signers.iter().filter(|i| **i != last).map(|i| f.t.stakes[*i] as u64).sum();
                    if distinct < q {
                        let mut e2 = entries.clone();
                        let k = e2.len() - 1;
                        let other = if e2[0].1 + 1 < round { e2[0].1 + 1 } else { e2[0].1.saturating_sub(1) };
                        if other != e2[0].1 {
                            e2[k] = (s0, other);
                            let t2 = f.tc(round, &e2);
                            expect(&mut o, &mut table, "tc/repeated-signer-other-high-qc-round".into(), false, es(t2.verify(c)), desc.clone());
                        }
                    }
                }
            }
        }
        // ---- blocks
        let author = *members.choose(&mut rng).unwrap();
        let payload: Vec<Digest> = (0..rng.gen_range(0, 4)).map(|_| rand_digest(&mut rng)).collect();
        let b = f.block(author, round + 1, qc.clone(), None, payload.clone());
        expect(&mut o, &mut table, "block/valid".into(), true, es(b.verify(c)), desc.clone());
        expect(&mut o, &mut table, "block/valid-genesis-qc".into(), true, es(f.block(author, 1, QC::genesis(), None, vec![]).verify(c)), desc.clone());
        let btc = f.block(author, round + 2, qc.clone(), Some(f.tc(round + 1, &entries)), payload.clone());
        expect(&mut o, &mut table, "block/valid-with-tc".into(), true, es(btc.verify(c)), desc.clone());
        {
            for bit in (0..512).step_by(if round_idx == 0 { 1 } else { 41 }) {
                let mut b2 = b.clone();
                b2.signature = flip(&b2.signature, bit);
                expect(&mut o, &mut table, "block/sig-bitflip".into(), false, es(b2.verify(c)), format!("bit {}", bit));
            }
            let mut b2 = b.clone();
            b2.round += 1;
            expect(&mut o, &mut table, "block/round-altered".into(), false, es(b2.verify(c)), desc.clone());
            let mut b2 = b.clone();
            b2.payload.push(rand_digest(&mut rng));
            expect(&mut o, &mut table, "block/payload-altered".into(), false, es(b2.verify(c)), desc.clone());
            for i in 0..payload.len() {
                let mut b2 = b.clone();
                b2.payload[i] = rand_digest(&mut rng);
                expect(&mut o, &mut table, "block/payload-element-altered".into(), false, es(b2.verify(c)), format!("position {}", i));
            }
            if members.len() > 1 {
                let mut b2 = b.clone();
                b2.author = f.t.names[*members.iter().find(|x| **x != author).unwrap()];
                expect(&mut o, &mut table, "block/author-altered".into(), false, es(b2.verify(c)), desc.clone());
            }
            // parent altered together with a fresh valid QC for the new parent: signature no longer matches
            let mut b2 = b.clone();
            b2.qc = f.qc(&rand_digest(&mut rng), round, &signers);
            expect(&mut o, &mut table, "block/parent-altered".into(), false, es(b2.verify(c)), desc.clone());
            // re-signed blocks whose embedded certificate is invalid
            let mut bad_qc = qc.clone();
            bad_qc.votes.pop();
            let b2 = f.block(author, round + 1, bad_qc, None, payload.clone());
            expect(&mut o, &mut table, "block/embedded-qc-below-quorum".into(), false, es(b2.verify(c)), desc.clone());
            let mut bad_qc = qc.clone();
            bad_qc.round += 1;
            let b2 = f.block(author, round + 2, bad_qc, None, payload.clone());
            expect(&mut o, &mut table, "block/embedded-qc-round-altered".into(), false, es(b2.verify(c)), desc.clone());
            let mut bad_tc = f.tc(round + 1, &entries);
            bad_tc.votes[0].2 += 1;
            let b2 = f.block(author, round + 2, qc.clone(), Some(bad_tc), payload.clone());
            expect(&mut o, &mut table, "block/embedded-tc-altered".into(), false, es(b2.verify(c)), desc.clone());
            // A block that directly extends its QC and nevertheless carries a TC: the TC is not bound
            // by the digest, so it can be spliced onto an honest block; it must be verified all the same.
            for kind in 0..4 {
                let mut b2 = b.clone();
                let mut tc = f.tc(round + 7, &entries);
                match kind {
                    0 => tc.round += 1,
                    1 => {
                        tc.votes.pop();
                    }
                    2 => {
                        for v in tc.votes.iter_mut() {
                            v.1 = Signature::default();
                        }
                    }
                    _ => tc.votes[0].2 += 1,
                }
                b2.tc = Some(tc);
                expect(&mut o, &mut table, format!("block/direct-extension-with-invalid-tc/{}", kind), false, es(b2.verify(c)), desc.clone());
            }
            {
                let mut b2 = b.clone();
                b2.tc = Some(f.tc(round + 7, &entries));
                expect(&mut o, &mut table, "block/direct-extension-with-valid-tc".into(), true, es(b2.verify(c)), desc.clone());
            }
            let mut b2 = b.clone();
            b2.author = outsider.0;
            b2.signature = Signature::new(&b2.digest(), &outsider.1);
            expect(&mut o, &mut table, "block/non-member-author".into(), false, es(b2.verify(c)), desc.clone());
            let mut b2 = b.clone();
            b2.signature = f.vote(author, &b.digest(), b.round).signature;
            expect(&mut o, &mut table, "block/sig-from-vote-for-it".into(), false, es(b2.verify(c)), desc.clone());
        }
        if samples.len() < 2 {
            samples.push(json!({"committee": desc, "round": round}));
        }
    }
    o.report.count("C04.verdicts_checked", o.cases);
    let mut t: Vec<(String, (u64, u64))> = table.into_iter().collect();
    t.sort();
    samples.push(json!({"verdict_table (class: [accepted, rejected])": t.into_iter().map(|(k, v)| (k, vec![v.0, v.1])).collect::<HashMap<_, _>>() }));
    o.sample = json!(samples);
    o
}

pub fn run(workload: &str, class: &str, seed: u64, p: &Params) -> RunResult {
    let t0 = std::time::Instant::now();
    // A panic inside the code under test must become a verdict, not a dead worker.
    let caught = std::panic::catch_unwind(std::panic::AssertUnwindSafe(|| match workload {
        "c17" => c17(class, seed, p),
        "c18" => c18(class, seed, p),
        "c20" => c20(class, seed, p),
        "c09" => c09(class, seed, p),
        "c19" => c19(class, seed, p),
        "c04" => c04(class, seed, p),
        _ => unreachable!(),
    }));
    let o = match caught {
        Ok(o) => o,
        Err(_) => {
            let mut o = Out::new();
            o.cases = 1;
            let prop: &'static str = match workload {
                "c17" => "C17",
                "c18" => "C18",
                "c20" => "C20",
                "c09" => "C09",
                "c19" => "C19",
                _ => "C04",
            };
            let panics = crate::evlog::take_panics();
            let (loc, msg) = panics.last().map(|p| (p.0.clone(), p.1.clone())).unwrap_or_default();
            let in_harness = loc.starts_with("src/");
            if in_harness {
                o.report.inconclusive.push(format!("{}: the harness itself panicked at {}: {}", prop, loc, msg));
            } else {
                o.report.violate(prop, format!("panic-in-code-under-test@{}", loc.replace("/verif/repo/", "")), format!("the component panicked: {}", msg), vec![]);
            }
            o
        }
    };
    let mut report = o.report;
    for (loc, msg, th) in crate::evlog::take_panics() {
        report.violate("C15", format!("panic@{}", loc), format!("panic in thread {}: {}", th, msg), vec![]);
    }
    use std::hash::{Hash, Hasher};
    let mut h = std::collections::hash_map::DefaultHasher::new();
    (workload, class, seed).hash(&mut h);
    RunResult {
        workload: workload.into(),
        class: class.into(),
        seed,
        params: json!({}),
        report,
        fingerprint: format!("{:016x}", h.finish()),
        wall_ms: t0.elapsed().as_millis() as u64,
        virtual_ms: 0,
        sample: o.sample,
        cases: o.cases,
        classes: o.classes.into_iter().collect(),
    }
}
