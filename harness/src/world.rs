// Topology: keys, stakes, addresses (the dialled address encodes who is dialling), committees.
use consensus::Committee as CCommittee;
use crypto::{generate_keypair, Digest, PublicKey, SecretKey, Signature};
use mempool::Committee as MCommittee;
use rand::rngs::StdRng;
use rand::SeedableRng as _;
use std::net::{IpAddr, Ipv4Addr, SocketAddr};

pub const SVC_CONSENSUS: u8 = 0;
pub const SVC_MEMPOOL: u8 = 1;
pub const SVC_TX: u8 = 2;
/// Source tag used by clients.
pub const TAG_CLIENT: usize = 200;

pub fn port(dst: usize, svc: u8) -> u16 {
    20_000 + (dst as u16) * 10 + svc as u16
}

/// The address node/actor `src` dials to reach service `svc` of node `dst`.
pub fn addr(src: usize, dst: usize, svc: u8) -> SocketAddr {
    SocketAddr::new(
        IpAddr::V4(Ipv4Addr::new(10, (src + 1) as u8, (dst + 1) as u8, svc)),
        port(dst, svc),
    )
}

#[derive(Clone, Copy, Debug, PartialEq, Eq, Hash)]
pub struct Route {
    pub src: usize,
    pub dst: usize,
    pub svc: u8,
}

pub fn decode(a: &SocketAddr) -> Option<Route> {
    match a.ip() {
        IpAddr::V4(ip) => {
            let o = ip.octets();
            if o[0] != 10 || o[1] == 0 || o[2] == 0 {
                return None;
            }
            Some(Route { src: o[1] as usize - 1, dst: o[2] as usize - 1, svc: o[3] })
        }
        _ => None,
    }
}

pub fn clone_secret(s: &SecretKey) -> SecretKey {
    SecretKey::decode_base64(&s.encode_base64()).expect("secret key round trip")
}

pub struct Topo {
    pub n: usize,
    /// Sorted by public key: index i leads rounds r with r % n == i.
    pub names: Vec<PublicKey>,
    pub secrets: Vec<SecretKey>,
    pub stakes: Vec<u32>,
}

impl Topo {
    pub fn new(n: usize, stakes: Vec<u32>, seed: u64) -> Self {
        assert_eq!(stakes.len(), n);
        let mut rng = StdRng::seed_from_u64(seed ^ 0x5eed_0000_1234);
        let mut keys: Vec<(PublicKey, SecretKey)> = (0..n).map(|_| generate_keypair(&mut rng)).collect();
        keys.sort_by(|a, b| a.0.cmp(&b.0));
        let (names, secrets): (Vec<_>, Vec<_>) = keys.into_iter().unzip();
        Self { n, names, secrets, stakes }
    }

    pub fn index_of(&self, k: &PublicKey) -> Option<usize> {
        self.names.iter().position(|x| x == k)
    }

    pub fn total_stake(&self) -> u64 {
        self.stakes.iter().map(|x| *x as u64).sum()
    }

    /// Independent quorum arithmetic: floor(2N/3) + 1.
    pub fn quorum(&self) -> u64 {
        2 * self.total_stake() / 3 + 1
    }

    pub fn stake_of(&self, k: &PublicKey) -> u64 {
        self.index_of(k).map(|i| self.stakes[i] as u64).unwrap_or(0)
    }

    /// Independent leader function: sorted keys, round robin.
    pub fn leader(&self, round: u64) -> usize {
        (round % self.n as u64) as usize
    }

    pub fn consensus_committee(&self, viewer: usize) -> CCommittee {
        CCommittee::new(
            (0..self.n)
                .map(|j| (self.names[j], self.stakes[j], addr(viewer, j, SVC_CONSENSUS)))
                .collect(),
            1,
        )
    }

    pub fn mempool_committee(&self, viewer: usize) -> MCommittee {
        MCommittee::new(
            (0..self.n)
                .map(|j| (self.names[j], self.stakes[j], addr(viewer, j, SVC_TX), addr(viewer, j, SVC_MEMPOOL)))
                .collect(),
            1,
        )
    }

    pub fn sign(&self, i: usize, d: &Digest) -> Signature {
        Signature::new(d, &self.secrets[i])
    }
}

/// Scratch directory for stores etc.; removed by `Scratch::drop`.
pub struct Scratch(pub std::path::PathBuf);

impl Scratch {
    pub fn new(tag: &str) -> Self {
        let base = if std::path::Path::new("/dev/shm").is_dir() { "/dev/shm" } else { "/tmp" };
        let p = std::path::PathBuf::from(format!(
            "{}/hsv-{}-{}-{}",
            base,
            std::process::id(),
            tag,
            std::time::SystemTime::now().duration_since(std::time::UNIX_EPOCH).map(|d| d.as_nanos()).unwrap_or(0)
        ));
        let _ = std::fs::create_dir_all(&p);
        Scratch(p)
    }
    pub fn path(&self, name: &str) -> String {
        self.0.join(name).to_string_lossy().to_string()
    }
}

impl Drop for Scratch {
    fn drop(&mut self) {
        let _ = std::fs::remove_dir_all(&self.0);
    }
}
