// Engine M1: n authorities, real nodes (consensus-only or full `Node::new`) on the simulated
// network under virtual time; the rest is played by adversaries / left absent.
use crate::config::{Committee as NodeCommittee, Export as _, Parameters as NodeParameters, Secret};
use crate::evlog::{self, Kind};
use crate::net::{self, Ctl};
use crate::world::{clone_secret, Scratch, Topo};
use consensus::{Block, Consensus, Parameters as CParameters};
use crypto::{Digest, SignatureService};
use mempool::Parameters as MParameters;
use std::sync::Arc;
use store::Store;
use tokio::sync::mpsc::{channel, Sender};

#[derive(Clone, Debug)]
pub struct ClusterCfg {
    pub n: usize,
    pub stakes: Vec<u32>,
    pub seed: u64,
    pub timeout_ms: u64,
    pub sync_retry_ms: u64,
    pub full_node: bool,
    /// Authorities not run as real nodes (played by an adversary, a puppet, or simply absent).
    pub not_started: Vec<usize>,
    pub batch_size: usize,
    pub max_batch_delay: u64,
    pub mempool_sync_retry_ms: u64,
    pub gc_depth: u64,
    /// Consensus-only nodes: a feeder task plays the mempools (writes fresh batches into every
    /// node's store, then hands the digest to one node's proposer), so that blocks carry payloads.
    pub feed_payload: bool,
    /// (node, delay in ms): consensus of that node is only spawned after the delay (late boot).
    pub boot_delays: Vec<(usize, u64)>,
}

impl ClusterCfg {
    pub fn new(n: usize, seed: u64) -> Self {
        Self {
            n,
            stakes: vec![1; n],
            seed,
            timeout_ms: 1_000,
            sync_retry_ms: 5_000,
            full_node: false,
            not_started: Vec::new(),
            batch_size: 200,
            max_batch_delay: 50,
            mempool_sync_retry_ms: 2_000,
            gc_depth: 50,
            feed_payload: true,
            boot_delays: Vec::new(),
        }
    }
}

pub struct NodeHandle {
    pub idx: usize,
    pub store_path: String,
    /// Consensus-only mode: hand payload digests to the proposer (as the mempool would).
    pub tx_digest: Option<Sender<Digest>>,
    /// Consensus-only mode: a handle on the node's store.
    pub store: Option<Store>,
}

pub struct Cluster {
    pub topo: Arc<Topo>,
    pub ctl: Ctl,
    pub scratch: Scratch,
    pub cfg: ClusterCfg,
    pub nodes: Vec<NodeHandle>,
}

impl Cluster {
    /// Must run inside the scenario runtime, after `evlog::begin()`.
    pub async fn start(cfg: ClusterCfg) -> Self {
        let topo = Arc::new(Topo::new(cfg.n, cfg.stakes.clone(), cfg.seed));
        let ctl = net::install(cfg.seed);
        let scratch = Scratch::new("cluster");
        let mut nodes = Vec::new();
        for i in 0..cfg.n {
            if cfg.not_started.contains(&i) {
                continue;
            }
            nodes.push(Self::start_node(&topo, &cfg, &scratch, i).await);
        }
        if !cfg.full_node && cfg.feed_payload {
            Self::spawn_feeder(&nodes, cfg.seed);
        }
        Self { topo, ctl, scratch, cfg, nodes }
    }

    /// Plays the mempools of consensus-only nodes: every 20..80 virtual ms a fresh batch is written
    /// into every real node's store (as if it had been disseminated) and its digest is handed to
    /// one node's proposer.
    pub fn spawn_feeder(nodes: &[NodeHandle], seed: u64) {
        use rand::{Rng as _, SeedableRng as _};
        let stores: Vec<Store> = nodes.iter().filter_map(|h| h.store.clone()).collect();
        let senders: Vec<Sender<Digest>> = nodes.iter().filter_map(|h| h.tx_digest.clone()).collect();
        if stores.is_empty() || senders.is_empty() {
            return;
        }
        tokio::spawn(async move {
            let mut rng = rand::rngs::StdRng::seed_from_u64(seed ^ 0xfeed);
            let mut stores = stores;
            let mut k: u64 = 0;
            loop {
                tokio::time::sleep(tokio::time::Duration::from_millis(rng.gen_range(20, 80))).await;
                k += 1;
                let mut d = [0u8; 32];
                d[..8].copy_from_slice(&k.to_le_bytes());
                d[8] = 0xfd;
                let digest = Digest(d);
                for st in stores.iter_mut() {
                    st.write(digest.to_vec(), b"fed batch".to_vec()).await;
                }
                let i = rng.gen_range(0, senders.len());
                if senders[i].send(digest).await.is_err() {
                    return;
                }
            }
        });
    }

    pub fn store_path(scratch: &Scratch, i: usize) -> String {
        scratch.path(&format!("db_{}", i))
    }

    pub async fn start_node(topo: &Arc<Topo>, cfg: &ClusterCfg, scratch: &Scratch, i: usize) -> NodeHandle {
        let store_path = Self::store_path(scratch, i);
        if cfg.full_node {
            let committee = NodeCommittee {
                consensus: topo.consensus_committee(i),
                mempool: topo.mempool_committee(i),
            };
            let cfile = scratch.path(&format!("committee_{}.json", i));
            committee.write(&cfile).expect("write committee file");
            let kfile = scratch.path(&format!("key_{}.json", i));
            Secret { name: topo.names[i], secret: clone_secret(&topo.secrets[i]) }
                .write(&kfile)
                .expect("write key file");
            let pfile = scratch.path(&format!("parameters_{}.json", i));
            NodeParameters {
                consensus: CParameters { timeout_delay: cfg.timeout_ms, sync_retry_delay: cfg.sync_retry_ms },
                mempool: MParameters {
                    gc_depth: cfg.gc_depth,
                    sync_retry_delay: cfg.mempool_sync_retry_ms,
                    sync_retry_nodes: 3,
                    batch_size: cfg.batch_size,
                    max_batch_delay: cfg.max_batch_delay,
                },
            }
            .write(&pfile)
            .expect("write parameters file");
            let mut node = crate::node::Node::new(&cfile, &kfile, &store_path, Some(pfile))
                .await
                .expect("Node::new");
            tokio::spawn(async move {
                while let Some(block) = node.commit.recv().await {
                    evlog::push(Kind::App { node: i, block });
                }
            });
            NodeHandle { idx: i, store_path, tx_digest: None, store: None }
        } else {
            let store = Store::new(&store_path).expect("store");
            let signature_service = SignatureService::new(clone_secret(&topo.secrets[i]));
            let (tx_c2m, mut rx_c2m) = channel(1_000);
            let (tx_m2c, rx_m2c) = channel(1_000);
            let (tx_commit, mut rx_commit) = channel::<Block>(1_000);
            tokio::spawn(async move { while rx_c2m.recv().await.is_some() {} });
            let delay = cfg.boot_delays.iter().find(|(n, _)| *n == i).map(|x| x.1).unwrap_or(0);
            let (name, committee, params, store2) = (
                topo.names[i],
                topo.consensus_committee(i),
                CParameters { timeout_delay: cfg.timeout_ms, sync_retry_delay: cfg.sync_retry_ms },
                store.clone(),
            );
            if delay == 0 {
                Consensus::spawn(name, committee, params, signature_service, store2, rx_m2c, tx_c2m, tx_commit);
            } else {
                // late boot: the node's consensus (and with it its round timer) starts later
                tokio::spawn(async move {
                    tokio::time::sleep(tokio::time::Duration::from_millis(delay)).await;
                    evlog::note(format!("late boot of node {}", i));
                    Consensus::spawn(name, committee, params, signature_service, store2, rx_m2c, tx_c2m, tx_commit);
                });
            }
            tokio::spawn(async move {
                while let Some(block) = rx_commit.recv().await {
                    evlog::push(Kind::App { node: i, block });
                }
            });
            NodeHandle { idx: i, store_path, tx_digest: Some(tx_m2c), store: Some(store) }
        }
    }

    pub fn started(&self) -> Vec<usize> {
        self.nodes.iter().map(|h| h.idx).collect()
    }
}

/// Build a paused-clock single-thread runtime and run `f` on it; the runtime (and with it every
/// node task) is dropped before this returns.
pub fn run_virtual<F, T>(f: F) -> T
where
    F: std::future::Future<Output = T>,
{
    let rt = tokio::runtime::Builder::new_current_thread()
        .enable_time()
        .start_paused(true)
        .build()
        .expect("runtime");
    let out = rt.block_on(f);
    drop(rt);
    out
}
