// One append-only event log per scenario: hook events, tap events and harness events, all stamped
// from one global sequence counter and the (virtual) tokio clock.
use crate::world::{decode, Route, SVC_CONSENSUS, SVC_MEMPOOL, SVC_TX};
use bytes::Bytes;
use consensus::verif::{ConsensusMessage, Event as CoreEvent};
use consensus::{Block, QC, TC};
use consensus::verif::{Timeout, Vote};
use crypto::{Digest, PublicKey};
use mempool::verif::MempoolMessage;
use network::simnet::{Dir, TapEvent};
use std::sync::atomic::{AtomicU64, Ordering};
use std::sync::Mutex;

#[derive(Clone, Debug)]
pub enum CMsg {
    Propose(Block),
    Vote(Vote),
    Timeout(Timeout),
    TC(TC),
    Sync(Digest, PublicKey),
}

#[derive(Clone, Debug)]
pub enum Parsed {
    Cons(CMsg),
    /// A mempool batch: digest of the exact frame bytes, number of transactions.
    Batch { digest: Digest, txs: usize },
    BatchRequest { digests: Vec<Digest>, origin: PublicKey },
    Tx,
    /// A reply frame travelling back to the dialler ("Ack" or anything else).
    Reply,
    Undecodable,
}

#[derive(Clone, Debug)]
pub struct Frame {
    pub conn: u64,
    pub route: Route,
    pub dir: Dir,
    pub idx: u64,
    pub data: Bytes,
    pub raw: bool,
    pub parsed: Parsed,
}

impl Frame {
    /// Who wrote the frame / who can read it (node or actor tags).
    pub fn sender(&self) -> usize {
        if self.dir == Dir::ToServer { self.route.src } else { self.route.dst }
    }
    pub fn receiver(&self) -> usize {
        if self.dir == Dir::ToServer { self.route.dst } else { self.route.src }
    }
    pub fn cons(&self) -> Option<&CMsg> {
        match &self.parsed {
            Parsed::Cons(m) => Some(m),
            _ => None,
        }
    }
}

#[derive(Clone, Debug)]
pub enum Kind {
    Connect { conn: u64, route: Option<Route>, ok: bool },
    FrameOut { frame: Frame, lost: bool },
    FrameIn { frame: Frame },
    Closed { conn: u64, route: Option<Route>, dir: Dir, reset: bool },
    Core(CoreEvent),
    StoreWrite { store: String, key: Vec<u8>, len: usize },
    Signed { signer: PublicKey, digest: Digest },
    /// A block read from a node's commit channel (the application boundary).
    App { node: usize, block: Block },
    /// A digest read from a mempool's channel to consensus (component workloads).
    Note { what: String },
    Panic { location: String, message: String, thread: String },
}

#[derive(Clone, Debug)]
pub struct Ev {
    pub seq: u64,
    pub vt_us: u64,
    pub kind: Kind,
}

static SEQ: AtomicU64 = AtomicU64::new(0);
static LOG: Mutex<Vec<Ev>> = Mutex::new(Vec::new());
static START: Mutex<Option<tokio::time::Instant>> = Mutex::new(None);

pub fn now_us() -> u64 {
    let start = *START.lock().unwrap_or_else(|e| e.into_inner());
    match start {
        Some(s) => tokio::time::Instant::now().saturating_duration_since(s).as_micros() as u64,
        None => 0,
    }
}

pub fn push(kind: Kind) -> u64 {
    let vt_us = now_us();
    let mut log = LOG.lock().unwrap_or_else(|e| e.into_inner());
    let seq = SEQ.fetch_add(1, Ordering::SeqCst);
    log.push(Ev { seq, vt_us, kind });
    seq
}

pub fn note(what: impl Into<String>) {
    push(Kind::Note { what: what.into() });
}

pub fn len() -> usize {
    LOG.lock().unwrap_or_else(|e| e.into_inner()).len()
}

/// Copy of the events from index `from` on (for actors that follow the log while it grows).
pub fn tail(from: usize) -> Vec<Ev> {
    let log = LOG.lock().unwrap_or_else(|e| e.into_inner());
    log[from.min(log.len())..].to_vec()
}

pub fn take() -> Vec<Ev> {
    std::mem::take(&mut *LOG.lock().unwrap_or_else(|e| e.into_inner()))
}

fn parse(route: &Option<Route>, dir: Dir, raw: bool, data: &Bytes) -> Parsed {
    if raw {
        return Parsed::Undecodable;
    }
    let route = match route {
        Some(r) => r,
        None => return Parsed::Undecodable,
    };
    if dir == Dir::ToClient {
        return Parsed::Reply;
    }
    // Decoders of the code under test may panic on hostile bytes (that is C15's business, judged at
    // the node); the log must survive it.
    let data2 = data.clone();
    let svc = route.svc;
    let r = std::panic::catch_unwind(move || match svc {
        SVC_CONSENSUS => match bincode::deserialize::<ConsensusMessage>(&data2) {
            Ok(ConsensusMessage::Propose(b)) => Parsed::Cons(CMsg::Propose(b)),
            Ok(ConsensusMessage::Vote(v)) => Parsed::Cons(CMsg::Vote(v)),
            Ok(ConsensusMessage::Timeout(t)) => Parsed::Cons(CMsg::Timeout(t)),
            Ok(ConsensusMessage::TC(t)) => Parsed::Cons(CMsg::TC(t)),
            Ok(ConsensusMessage::SyncRequest(d, o)) => Parsed::Cons(CMsg::Sync(d, o)),
            Err(_) => Parsed::Undecodable,
        },
        SVC_MEMPOOL => match bincode::deserialize::<MempoolMessage>(&data2) {
            Ok(MempoolMessage::Batch(b)) => Parsed::Batch { digest: crate::model::sha512_256(&data2), txs: b.len() },
            Ok(MempoolMessage::BatchRequest(d, o)) => Parsed::BatchRequest { digests: d, origin: o },
            Err(_) => Parsed::Undecodable,
        },
        SVC_TX => Parsed::Tx,
        _ => Parsed::Undecodable,
    });
    r.unwrap_or(Parsed::Undecodable)
}

thread_local! {
    /// Set while the harness itself runs code that may legitimately panic (decoders on hostile bytes).
    pub static HARNESS_PROBE: std::cell::Cell<bool> = std::cell::Cell::new(false);
}

fn on_tap(ev: TapEvent) {
    match ev {
        TapEvent::Connect { conn, dialled, ok } => {
            push(Kind::Connect { conn, route: decode(&dialled), ok });
        }
        TapEvent::FrameOut { conn, dialled, dir, idx, data, raw, lost } => {
            let route = decode(&dialled);
            let parsed = HARNESS_PROBE.with(|p| {
                let old = p.replace(true);
                let r = parse(&route, dir, raw, &data);
                p.set(old);
                r
            });
            if let Some(route) = route {
                push(Kind::FrameOut { frame: Frame { conn, route, dir, idx, data, raw, parsed }, lost });
            }
        }
        TapEvent::FrameIn { conn, dialled, dir, idx, data, raw } => {
            let route = decode(&dialled);
            let parsed = HARNESS_PROBE.with(|p| {
                let old = p.replace(true);
                let r = parse(&route, dir, raw, &data);
                p.set(old);
                r
            });
            if let Some(route) = route {
                push(Kind::FrameIn { frame: Frame { conn, route, dir, idx, data, raw, parsed } });
            }
        }
        TapEvent::Closed { conn, dialled, dir, reset } => {
            push(Kind::Closed { conn, route: decode(&dialled), dir, reset });
        }
    }
}

/// Start a fresh log and install every sink. Must be called inside the scenario's runtime.
pub fn begin() {
    network::simnet::reset_world();
    *LOG.lock().unwrap_or_else(|e| e.into_inner()) = Vec::new();
    SEQ.store(0, Ordering::SeqCst);
    *START.lock().unwrap_or_else(|e| e.into_inner()) = Some(tokio::time::Instant::now());
    network::simnet::set_tap(Box::new(on_tap));
    consensus::verif::set_sink(Some(Box::new(|e| {
        push(Kind::Core(e));
    })));
    store::verif::set_sink(Some(Box::new(|e| match e {
        store::verif::Event::Write { store, key, len } => {
            push(Kind::StoreWrite { store, key, len });
        }
    })));
    crypto::verif::set_sink(Some(Box::new(|e| match e {
        crypto::verif::Event::Signed { signer, digest } => {
            push(Kind::Signed { signer, digest });
        }
    })));
}

pub fn end() -> Vec<Ev> {
    consensus::verif::set_sink(None);
    store::verif::set_sink(None);
    crypto::verif::set_sink(None);
    network::simnet::reset_world();
    *START.lock().unwrap_or_else(|e| e.into_inner()) = None;
    take()
}

/// Process-wide panic hook: records every panic (thread, location, message) in the log and in a
/// counter that survives `take()`.
pub static PANICS: Mutex<Vec<(String, String, String)>> = Mutex::new(Vec::new());

pub fn install_panic_hook() {
    std::panic::set_hook(Box::new(|info| {
        if HARNESS_PROBE.with(|p| p.get()) {
            // A decoder probed by the harness itself; the caller records the outcome.
            return;
        }
        let location = info.location().map(|l| format!("{}:{}", l.file(), l.line())).unwrap_or_default();
        let message = if let Some(s) = info.payload().downcast_ref::<&str>() {
            s.to_string()
        } else if let Some(s) = info.payload().downcast_ref::<String>() {
            s.clone()
        } else {
            "<non-string panic>".to_string()
        };
        let thread = std::thread::current().name().unwrap_or("?").to_string();
        eprintln!("PANIC at {} [{}]: {}", location, thread, message);
        PANICS.lock().unwrap_or_else(|e| e.into_inner()).push((location.clone(), message.clone(), thread.clone()));
        push(Kind::Panic { location, message, thread });
    }));
}

pub fn take_panics() -> Vec<(String, String, String)> {
    std::mem::take(&mut *PANICS.lock().unwrap_or_else(|e| e.into_inner()))
}

pub fn hex(d: &[u8]) -> String {
    d.iter().take(6).map(|b| format!("{:02x}", b)).collect()
}
