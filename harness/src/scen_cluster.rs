// Cluster scenarios with honest nodes only (classes S1-S4): benign, crash, async-then-stable,
// partition/heal. Always-on monitors plus the scenario-specific C06 / C07 oracles.
use crate::cluster::{run_virtual, Cluster, ClusterCfg};
use crate::evlog::{self, Kind};
use crate::monitors::{self, Ctx, Report};
use crate::net;
use crate::result::RunResult;
use crate::Params;
use rand::rngs::StdRng;
use rand::seq::SliceRandom as _;
use rand::{Rng as _, SeedableRng as _};
use serde_json::json;
use std::collections::HashMap;
use tokio::time::{sleep, Duration};

#[derive(Clone, Debug)]
pub struct Plan {
    pub class: String,
    pub n: usize,
    pub stakes: Vec<u32>,
    pub timeout_ms: u64,
    pub lo_ms: u64,
    pub hi_ms: u64,
    /// (node, crash time in ms; 0 = never started)
    pub crashes: Vec<(usize, u64)>,
    /// Until this time, a share of frames is delayed by up to `slow_hi_ms`.
    pub gst_ms: u64,
    pub slow_prob: f64,
    pub slow_hi_ms: u64,
    /// (start, end, isolated node) intervals.
    pub isolations: Vec<(u64, u64, usize)>,
    /// (start, end, side A) minority partitions.
    pub splits: Vec<(u64, u64, Vec<usize>)>,
    pub duration_ms: u64,
    pub full_node: bool,
    pub sync_retry_ms: u64,
    /// (node, ms): nodes whose consensus starts late (their round timers are out of phase).
    pub boot_delays: Vec<(usize, u64)>,
    /// When > 0: proposals take this long (they are the big messages), everything else 1..10 ms.
    pub propose_delay_ms: u64,
    /// (arm time, delay) in ms: the first node that puts a timeout certificate on the wire after the
    /// arm time (and before GST) crashes `delay` ms later, i.e. in the middle of disseminating it
    /// (class s3c).  The crash that actually happened is added to `crashes` after the run.
    pub crash_on_tc: Option<(u64, u64)>,
}

fn faults_tolerated(stakes: &[u32]) -> u64 {
    let n: u64 = stakes.iter().map(|x| *x as u64).sum();
    (n - 1) / 3
}

fn pick_stakes(rng: &mut StdRng, n: usize) -> Vec<u32> {
    match rng.gen_range(0, 4) {
        0 | 1 => vec![1; n],
        2 => (0..n).map(|_| rng.gen_range(1, 4)).collect(),
        _ => {
            let mut s = vec![1; n];
            let k = rng.gen_range(0, n);
            s[k] = 2;
            s
        }
    }
}

/// Choose a set of nodes whose total stake is <= f.
fn pick_faulty(rng: &mut StdRng, stakes: &[u32], want: usize) -> Vec<usize> {
    let f = faults_tolerated(stakes);
    let mut idx: Vec<usize> = (0..stakes.len()).collect();
    idx.shuffle(rng);
    let mut out = Vec::new();
    let mut used = 0u64;
    for i in idx {
        if out.len() >= want {
            break;
        }
        if used + stakes[i] as u64 <= f {
            used += stakes[i] as u64;
            out.push(i);
        }
    }
    out
}

pub fn plan(class: &str, seed: u64, p: &Params) -> Plan {
    let mut rng = StdRng::seed_from_u64(seed.wrapping_mul(0x9e37_79b9).wrapping_add(17));
    let n = p.get_u64("n").map(|x| x as usize).unwrap_or_else(|| rng.gen_range(4, 8));
    let stakes = if p.get_u64("equal_stakes").unwrap_or(0) == 1 { vec![1; n] } else { pick_stakes(&mut rng, n) };
    let timeout_ms = p.get_u64("timeout_ms").unwrap_or(400);
    let hi_ms = p.get_u64("hi_ms").unwrap_or(timeout_ms / 10);
    let duration_ms = p.get_u64("duration_ms").unwrap_or(30_000);
    let mut plan = Plan {
        class: class.to_string(),
        n,
        stakes: stakes.clone(),
        timeout_ms,
        lo_ms: 1,
        hi_ms: hi_ms.max(2),
        crashes: Vec::new(),
        gst_ms: 0,
        slow_prob: 0.0,
        slow_hi_ms: 0,
        isolations: Vec::new(),
        splits: Vec::new(),
        duration_ms,
        full_node: p.get_u64("full_node").unwrap_or(0) == 1,
        sync_retry_ms: p.get_u64("sync_retry_ms").unwrap_or(5_000),
        boot_delays: Vec::new(),
        propose_delay_ms: 0,
        crash_on_tc: None,
    };
    let f_nodes = pick_faulty(&mut rng, &stakes, n);
    match class {
        "s1" => {}
        "s2b" => {
            // The leader of round 1 never starts and one needed node boots most of a timeout late: the
            // first TC completes shortly before the other nodes' timers expire again.
            let victim = 1 % n;
            if stakes[victim] as u64 <= faults_tolerated(&stakes) {
                plan.crashes.push((victim, 0));
            }
            let live: Vec<usize> = (0..n).filter(|x| *x != victim).collect();
            let late = live[rng.gen_range(0, live.len())];
            let frac = rng.gen_range(80, 99);
            plan.boot_delays.push((late, timeout_ms * frac / 100));
            // asymmetric delays in half of the runs: proposals up to timeout/10, other messages fast
            if rng.gen_bool(0.5) {
                plan.propose_delay_ms = rng.gen_range(timeout_ms / 20, timeout_ms / 10 + 1);
            }
        }
        "s2" => {
            // up to f crashed: never started, or crashing at a random time in the first third.
            let k = rng.gen_range(1, f_nodes.len().max(1) + 1).min(f_nodes.len());
            for (j, node) in f_nodes.iter().take(k).enumerate() {
                let at = if rng.gen_bool(0.5) { 0 } else { rng.gen_range(1, duration_ms / 3) };
                // In a fixed share of runs the leader of round 1 is the (first) victim.
                let node = if j == 0 && rng.gen_bool(0.3) && stakes[1 % n] as u64 <= faults_tolerated(&stakes) && !f_nodes[1..k.max(1)].contains(&(1 % n)) {
                    1 % n
                } else {
                    *node
                };
                if !plan.crashes.iter().any(|(x, _)| *x == node) {
                    plan.crashes.push((node, at));
                }
            }
            // keep crashed stake <= f
            let f = faults_tolerated(&stakes);
            let mut used = 0u64;
            plan.crashes.retain(|(x, _)| {
                if used + stakes[*x] as u64 <= f {
                    used += stakes[*x] as u64;
                    true
                } else {
                    false
                }
            });
        }
        "s3" => {
            plan.gst_ms = rng.gen_range(duration_ms / 10, duration_ms / 3);
            plan.slow_prob = [0.05, 0.15, 0.3][rng.gen_range(0, 3)];
            plan.slow_hi_ms = timeout_ms * rng.gen_range(1, 6);
            if rng.gen_bool(0.5) {
                let k = rng.gen_range(0, f_nodes.len() + 1);
                for node in f_nodes.iter().take(k) {
                    let at = if rng.gen_bool(0.5) { 0 } else { rng.gen_range(1, plan.gst_ms) };
                    plan.crashes.push((*node, at));
                }
            }
        }
        "s3c" => {
            // As s3 with heavy pre-GST delays:
            // all but one of the tolerated crashes are nodes that never start; the last one is the
            // first node that broadcasts a timeout certificate after a random arm time, and it
            // crashes 20..400 ms later: frames it wrote that are still in flight (slow links) are
            // lost with it, so the certificate reaches only some of the live nodes.
            plan.gst_ms = rng.gen_range(duration_ms / 10, duration_ms / 3);
            plan.slow_prob = [0.15, 0.3, 0.45][rng.gen_range(0, 3)];
            plan.slow_hi_ms = timeout_ms * rng.gen_range(2, 6);
            let f = faults_tolerated(&stakes);
            let mut used = 0u64;
            let mut reserve_ok = false;
            // keep room for one more crashed authority of the largest stake
            let max_stake = *stakes.iter().max().unwrap() as u64;
            if f >= max_stake {
                reserve_ok = true;
                for node in f_nodes.iter() {
                    if used + stakes[*node] as u64 + max_stake <= f {
                        used += stakes[*node] as u64;
                        plan.crashes.push((*node, 0));
                    }
                }
            }
            if reserve_ok {
                let arm = rng.gen_range(3 * timeout_ms, plan.gst_ms.max(3 * timeout_ms + 1));
                plan.crash_on_tc = Some((arm, rng.gen_range(20, 400)));
            }
        }
        "s4" => {
            // isolate single nodes / split off minorities for random intervals, then heal.
            let episodes = rng.gen_range(1, 4);
            let mut t = rng.gen_range(timeout_ms, 4 * timeout_ms);
            for _ in 0..episodes {
                let len = timeout_ms * rng.gen_range(1, 20);
                if t + len + 10 * timeout_ms > duration_ms {
                    break;
                }
                if rng.gen_bool(0.6) {
                    plan.isolations.push((t, t + len, rng.gen_range(0, n)));
                } else {
                    let mut idx: Vec<usize> = (0..n).collect();
                    idx.shuffle(&mut rng);
                    let k = rng.gen_range(1, n / 2 + 1);
                    plan.splits.push((t, t + len, idx[..k].to_vec()));
                }
                t += len + rng.gen_range(2 * timeout_ms, 8 * timeout_ms);
            }
            if rng.gen_bool(0.3) {
                plan.slow_prob = 0.1;
                plan.slow_hi_ms = 2 * timeout_ms;
                plan.gst_ms = duration_ms;
            }
        }
        other => panic!("unknown cluster class {}", other),
    }
    // Late boots (s2 / s3): one or two live nodes start their consensus a fraction of a timeout after
    // the others, so that round timers are out of phase from the beginning.
    if (class == "s2" || class == "s3" || class == "s3c") && rng.gen_bool(0.5) {
        let crashed: Vec<usize> = plan.crashes.iter().map(|x| x.0).collect();
        let live: Vec<usize> = (0..n).filter(|x| !crashed.contains(x)).collect();
        for _ in 0..rng.gen_range(1, 3) {
            let node = live[rng.gen_range(0, live.len())];
            if !plan.boot_delays.iter().any(|(x, _)| *x == node) {
                plan.boot_delays.push((node, rng.gen_range(timeout_ms / 4, timeout_ms * 3 / 2)));
            }
        }
    }
    plan
}

pub struct Outcome {
    pub log: Vec<evlog::Ev>,
    pub topo: std::sync::Arc<crate::world::Topo>,
    pub honest: Vec<usize>,
    pub store_of: HashMap<String, usize>,
    /// (node, virtual ms) of the crash triggered by `Plan::crash_on_tc`, if it happened.
    pub triggered_crash: Option<(usize, u64)>,
}

pub fn execute(plan: &Plan, seed: u64) -> Outcome {
    let plan = plan.clone();
    run_virtual(async move {
        evlog::begin();
        let mut cfg = ClusterCfg::new(plan.n, seed);
        cfg.stakes = plan.stakes.clone();
        cfg.timeout_ms = plan.timeout_ms;
        cfg.full_node = plan.full_node;
        cfg.sync_retry_ms = plan.sync_retry_ms;
        cfg.boot_delays = plan.boot_delays.clone();
        cfg.not_started = plan.crashes.iter().filter(|(_, at)| *at == 0).map(|(x, _)| *x).collect();
        let cluster = Cluster::start(cfg).await;
        {
            let mut c = cluster.ctl.lock().unwrap();
            c.lo_ms = plan.lo_ms;
            c.hi_ms = plan.hi_ms;
            c.slow_prob = plan.slow_prob;
            c.slow_lo_ms = plan.hi_ms;
            c.slow_hi_ms = plan.slow_hi_ms;
            if plan.propose_delay_ms > 0 {
                let pd = plan.propose_delay_ms;
                c.frame_hook = Some(Box::new(move |ctx, rng| {
                    if ctx.route.svc != crate::world::SVC_CONSENSUS {
                        return None;
                    }
                    // bincode enum tag 0 = ConsensusMessage::Propose
                    let is_propose = ctx.dir == network::simnet::Dir::ToServer && ctx.frame.len() >= 4 && ctx.frame[..4] == [0, 0, 0, 0];
                    Some(network::simnet::FrameDecision::Deliver { delay_ms: if is_propose { pd } else { rng.gen_range(1, 11) } })
                }));
            }
        }
        // Class s3c: crash the first node that broadcasts a TC after the arm time, shortly afterwards.
        let triggered: std::sync::Arc<std::sync::Mutex<Option<(usize, u64)>>> = Default::default();
        if let Some((arm_ms, delay_ms)) = plan.crash_on_tc {
            let armed = std::sync::Arc::new(std::sync::atomic::AtomicBool::new(false));
            let victim: std::sync::Arc<std::sync::Mutex<Option<usize>>> = Default::default();
            {
                let (armed, victim) = (armed.clone(), victim.clone());
                // Per receiver: is the victim's link to it one of the slow ones (decided at the trigger)?
                let mut slow_to: HashMap<usize, bool> = HashMap::new();
                cluster.ctl.lock().unwrap().frame_hook = Some(Box::new(move |ctx, rng| {
                    if !armed.load(std::sync::atomic::Ordering::SeqCst) || ctx.route.svc != crate::world::SVC_CONSENSUS || ctx.dir != network::simnet::Dir::ToServer || ctx.frame.len() < 4 {
                        return None;
                    }
                    // bincode enum tags: 0 = ConsensusMessage::Propose, 3 = ConsensusMessage::TC
                    let tag = [ctx.frame[0], ctx.frame[1], ctx.frame[2], ctx.frame[3]];
                    let mut v = victim.lock().unwrap();
                    if v.is_none() && tag == [3, 0, 0, 0] {
                        *v = Some(ctx.sender());
                    }
                    if *v == Some(ctx.sender()) && (tag == [3, 0, 0, 0] || tag == [0, 0, 0, 0]) {
                        // The certificate (and a proposal carrying it) travels fast on some of the
                        // victim's links and is still in flight on the others when the victim dies:
                        // both are delays the pre-GST period allows.
                        let slow = *slow_to.entry(ctx.receiver()).or_insert_with(|| rng.gen_bool(0.5));
                        let delay_ms = if slow { delay_ms + rng.gen_range(200, 1000) } else { rng.gen_range(1, 20) };
                        return Some(network::simnet::FrameDecision::Deliver { delay_ms });
                    }
                    None
                }));
            }
            let (ctl, triggered, gst_ms) = (cluster.ctl.clone(), triggered.clone(), plan.gst_ms);
            let t0 = tokio::time::Instant::now();
            tokio::spawn(async move {
                sleep(Duration::from_millis(arm_ms)).await;
                armed.store(true, std::sync::atomic::Ordering::SeqCst);
                loop {
                    sleep(Duration::from_millis(2)).await;
                    let v = *victim.lock().unwrap();
                    if let Some(node) = v {
                        sleep(Duration::from_millis(delay_ms)).await;
                        let now = t0.elapsed().as_millis() as u64;
                        evlog::note(format!("fault crash [{}] (triggered by its TC broadcast)", node));
                        net::isolate(&ctl, node);
                        *triggered.lock().unwrap() = Some((node, now));
                        break;
                    }
                    if t0.elapsed().as_millis() as u64 + 500 >= gst_ms {
                        break; // no view change between the arm time and GST: no triggered crash in this run
                    }
                }
                armed.store(false, std::sync::atomic::Ordering::SeqCst);
            });
        }
        // Timeline of fault events.
        let mut timeline: Vec<(u64, String, Vec<usize>)> = Vec::new();
        for (node, at) in &plan.crashes {
            if *at > 0 {
                timeline.push((*at, "crash".into(), vec![*node]));
            }
        }
        if plan.gst_ms > 0 && plan.gst_ms < plan.duration_ms {
            timeline.push((plan.gst_ms, "gst".into(), vec![]));
        }
        for (a, b, node) in &plan.isolations {
            timeline.push((*a, "isolate".into(), vec![*node]));
            timeline.push((*b, "heal".into(), vec![*node]));
        }
        for (a, b, side) in &plan.splits {
            timeline.push((*a, "split".into(), side.clone()));
            timeline.push((*b, "unsplit".into(), side.clone()));
        }
        timeline.sort_by_key(|x| x.0);
        let mut now = 0u64;
        for (at, what, nodes) in timeline {
            if at > now {
                sleep(Duration::from_millis(at - now)).await;
                now = at;
            }
            evlog::note(format!("fault {} {:?}", what, nodes));
            match what.as_str() {
                "crash" | "isolate" => net::isolate(&cluster.ctl, nodes[0]),
                "heal" => net::heal(&cluster.ctl, nodes[0]),
                "gst" => {
                    let mut c = cluster.ctl.lock().unwrap();
                    c.slow_prob = 0.0;
                }
                "split" => {
                    let other: Vec<usize> = (0..plan.n).filter(|x| !nodes.contains(x)).collect();
                    net::partition(&cluster.ctl, &nodes, &other);
                }
                "unsplit" => {
                    let mut c = cluster.ctl.lock().unwrap();
                    c.blocked.retain(|(a, b)| !(nodes.contains(a) ^ nodes.contains(b)));
                }
                _ => {}
            }
        }
        if plan.duration_ms > now {
            sleep(Duration::from_millis(plan.duration_ms - now)).await;
        }
        let honest = cluster.started();
        let store_of: HashMap<String, usize> = cluster.nodes.iter().map(|h| (h.store_path.clone(), h.idx)).collect();
        let topo = cluster.topo.clone();
        let log = evlog::end();
        drop(cluster);
        let triggered_crash = *triggered.lock().unwrap();
        Outcome { log, topo, honest, store_of, triggered_crash }
    })
}

/// C06: bounded progress after stabilisation.
pub fn check_c06(plan: &Plan, out: &Outcome, r: &mut Report) {
    let f = faults_tolerated(&plan.stakes);
    let crashed: Vec<usize> = plan.crashes.iter().map(|(x, _)| *x).collect();
    let crashed_stake: u64 = crashed.iter().map(|x| plan.stakes[*x] as u64).sum();
    if crashed_stake > f || !plan.isolations.is_empty() || !plan.splits.is_empty() {
        r.inconclusive.push("C06: premise not met (more than f crashed or links cut)".into());
        return;
    }
    // A commit needs three consecutive live leaders (proposer of b0, of b1, and the collector of
    // the votes for b1). Round-robin over authorities guarantees that for equal stakes and <= f
    // crashes; with unequal stakes a crashed set of <= f *stake* can consist of so many small
    // authorities that no such window exists, which is outside what C06 states (it counts f
    // authorities). Such plans do not meet the premise.
    {
        let n = plan.n;
        let live_run = (0..n).any(|s| (0..3).all(|k| !crashed.contains(&((s + k) % n))));
        if !live_run {
            r.inconclusive.push("C06: premise not met (no three consecutive live leaders in the rotation; unequal stakes)".into());
            r.count("C06.plans_without_three_consecutive_live_leaders", 1);
            return;
        }
    }
    let last_crash = plan.crashes.iter().map(|(_, at)| *at).max().unwrap_or(0);
    let gst = plan.gst_ms.max(last_crash);
    // A leader that crashes in the middle of a broadcast leaves some nodes without its block; they
    // ask the author of the next block first and fall back to everybody only after
    // sync_retry_delay, checked on a fixed 5 s timer (consensus/src/synchronizer.rs).
    let w = 6 * (f + 1).max(1) * plan.timeout_ms + plan.sync_retry_ms + 10_000;
    let start = gst + w;
    let windows = plan.duration_ms.saturating_sub(start) / w;
    if windows < 3 {
        r.inconclusive.push("C06: run too short for three windows after stabilisation".into());
        return;
    }
    let mut times: HashMap<usize, Vec<(u64, u64)>> = HashMap::new(); // node -> (vt_ms, round)
    let mut tc_blocks_committed = 0u64;
    for ev in &out.log {
        if let Kind::App { node, block } = &ev.kind {
            if block.round > 0 {
                times.entry(*node).or_default().push((ev.vt_us / 1000, block.round));
                if block.tc.is_some() && *node == out.honest[0] {
                    tc_blocks_committed += 1;
                }
            }
        }
    }
    r.count("C06.tc_justified_blocks_committed", tc_blocks_committed);
    let live: Vec<usize> = out.honest.iter().cloned().filter(|i| !crashed.contains(i)).collect();
    let mut max_gap = 0u64;
    for i in &live {
        let v = times.get(i).cloned().unwrap_or_default();
        // growth events: times at which the maximum committed round increased
        let mut growth: Vec<u64> = Vec::new();
        let mut hi = 0u64;
        for (t, round) in &v {
            if *round > hi {
                hi = *round;
                growth.push(*t);
            }
        }
        for k in 0..windows {
            let a = start + k * w;
            let b = a + w;
            r.count("C06.windows_checked", 1);
            if !growth.iter().any(|t| *t >= a && *t < b) {
                r.violate(
                    "C06",
                    "no-commit-in-window",
                    format!(
                        "node {} committed nothing new in [{} ms, {} ms) (timeout {} ms, f={}, crashed {:?}, gst {} ms)",
                        i, a, b, plan.timeout_ms, f, plan.crashes, gst
                    ),
                    vec![format!("plan: {:?}", plan)],
                );
                break;
            }
        }
        // measured maximum gap after stabilisation
        let mut prev = start;
        for t in growth.iter().filter(|t| **t >= start) {
            max_gap = max_gap.max(t.saturating_sub(prev));
            prev = *t;
        }
        max_gap = max_gap.max(plan.duration_ms.saturating_sub(prev).min(w * 100));
    }
    // gap in units of 1/10 timeouts
    r.max("max.C06.commit_gap_decitimeouts", max_gap * 10 / plan.timeout_ms.max(1));
    if !plan.crashes.is_empty() {
        r.sit("C06:with_crash");
        if tc_blocks_committed > 0 {
            r.sit("C06:tc_justified_block_committed");
        }
    }
    if plan.gst_ms > 0 {
        r.sit("C06:async_then_stable");
    }
    if !plan.boot_delays.is_empty() {
        r.sit("C06:late_boot_timers_out_of_phase");
    }
    if plan.propose_delay_ms > 0 {
        r.sit("C06:proposals_slower_than_other_messages");
    }
    if plan.crash_on_tc.is_some() && plan.crashes.iter().any(|(_, at)| *at > 0) {
        r.sit("C06:crash_while_broadcasting_tc");
        r.count("C06.crashes_while_broadcasting_tc", 1);
    }
}

/// C07 (cluster part): after isolation ends and a settling period, the recovering node's
/// committed sequence agrees with the others and it caught up.
pub fn check_c07(plan: &Plan, out: &Outcome, r: &mut Report) {
    use crate::evlog::CMsg;
    use crypto::Hash as _;
    let settle = 60_000u64.min(plan.duration_ms / 3).max(20 * plan.timeout_ms);
    // (a) sync replies and (b) parent-first store order are always-on monitors (monitors::check_c07_always).
    // (c) convergence after the last heal.
    let mut victims: Vec<(usize, u64, u64)> = plan.isolations.iter().map(|(a, b, n)| (*n, *a, *b)).collect();
    for (a, b, side) in &plan.splits {
        for n in side {
            victims.push((*n, *a, *b));
        }
    }
    if victims.is_empty() {
        return;
    }
    let last_heal = victims.iter().map(|(_, _, b)| *b).max().unwrap();
    if plan.duration_ms < last_heal + settle || plan.slow_prob > 0.0 {
        r.inconclusive.push("C07: not enough quiet time after the last heal".into());
        return;
    }
    let mut commits: HashMap<usize, Vec<(u64, u64, crypto::Digest)>> = HashMap::new();
    for ev in &out.log {
        if let Kind::App { node, block } = &ev.kind {
            if block.round > 0 {
                commits.entry(*node).or_default().push((ev.vt_us / 1000, block.round, block.digest()));
            }
        }
    }
    let hi_at = |node: usize, t: u64| -> u64 { commits.get(&node).map_or(0, |v| v.iter().filter(|c| c.0 <= t).map(|c| c.1).max().unwrap_or(0)) };
    for (victim, a, b) in &victims {
        if !out.honest.contains(victim) {
            continue;
        }
        let others: Vec<usize> = out.honest.iter().cloned().filter(|x| x != victim && !victims.iter().any(|(v, _, _)| v == x)).collect();
        if others.is_empty() {
            continue;
        }
        let target = others.iter().map(|o| hi_at(*o, *b)).max().unwrap_or(0);
        let before = others.iter().map(|o| hi_at(*o, *a)).max().unwrap_or(0);
        let got = hi_at(*victim, plan.duration_ms);
        r.count("C07.recoveries_checked", 1);
        if target > before + 1 {
            r.sit("C07:gap_of_2plus_blocks");
            r.max("max.C07.rounds_missed", target.saturating_sub(before));
        }
        if got < target {
            r.violate(
                "C07",
                "lagging-node-did-not-catch-up",
                format!(
                    "node {} was cut off during [{} ms, {} ms); the others had committed round {} by then, but {} ms after reconnection it only reached round {}",
                    victim, a, b, target, plan.duration_ms - b, got
                ),
                vec![format!("plan: {:?}", plan)],
            );
        }
        // Same blocks at the same rounds as the others (sequence agreement is C01/C02's job too).
        let mine: HashMap<u64, crypto::Digest> = commits.get(victim).map(|v| v.iter().map(|c| (c.1, c.2.clone())).collect()).unwrap_or_default();
        for o in &others {
            for (_, round, d) in commits.get(o).cloned().unwrap_or_default() {
                if let Some(md) = mine.get(&round) {
                    if *md != d {
                        r.violate("C07", "recovered-node-diverged", format!("node {} and node {} committed different blocks at round {}", victim, o, round), vec![]);
                    }
                }
            }
        }
    }
}

pub fn run(class: &str, seed: u64, p: &Params) -> RunResult {
    let t0 = std::time::Instant::now();
    let mut plan = plan(class, seed, p);
    let out = execute(&plan, seed);
    if let Some((node, at)) = out.triggered_crash {
        plan.crashes.push((node, at.max(1)));
    }
    let ctx = Ctx { topo: &out.topo, honest: out.honest.clone(), store_of: out.store_of.clone(), log: &out.log };
    let (mut report, _ix) = monitors::check_all(&ctx);
    check_c06(&plan, &out, &mut report);
    check_c07(&plan, &out, &mut report);
    let fingerprint = monitors::fingerprint(&ctx);
    for (loc, msg, th) in evlog::take_panics() {
        report.violate("C15", format!("panic@{}", loc), format!("panic in thread {}: {}", th, msg), vec![]);
    }
    if std::env::var("HSV_DUMP").is_ok() {
        for ev in &out.log {
            eprintln!("{}", monitors::describe(ev));
        }
    }
    let commits: Vec<u64> = out
        .log
        .iter()
        .filter_map(|e| match &e.kind {
            Kind::App { node, block } if *node == out.honest[0] => Some(block.round),
            _ => None,
        })
        .collect();
    let sample = json!({
        "plan": format!("{:?}", plan),
        "node": out.honest[0],
        "committed_rounds_head": commits.iter().take(40).collect::<Vec<_>>(),
        "commits": commits.len(),
    });
    RunResult {
        workload: "cluster".into(),
        class: class.into(),
        seed,
        params: json!({"n": plan.n, "stakes": plan.stakes, "timeout_ms": plan.timeout_ms, "duration_ms": plan.duration_ms}),
        report,
        fingerprint,
        wall_ms: t0.elapsed().as_millis() as u64,
        virtual_ms: plan.duration_ms,
        sample,
        cases: 0,
        classes: Vec::new(),
    }
}
