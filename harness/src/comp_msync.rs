// C13 (component part): the mempool's synchronizer driven directly through the channel consensus
// uses (`Synchronize(digests, target)`, `Cleanup(round)`), with harness peers recording every
// BatchRequest they receive. Oracle: a requested batch that has not arrived is asked for again from
// other peers once sync_retry_delay has passed (the retry timer has a 1 s resolution), unless the
// request became older than gc_depth rounds (the only reason for which the repository abandons it).
use crate::cluster::run_virtual;
use crate::evlog;
use crate::monitors::Report;
use crate::net;
use crate::result::RunResult;
use crate::world::{port, Scratch, Topo, SVC_MEMPOOL};
use crate::Params;
use crypto::Digest;
use futures::stream::StreamExt as _;
use mempool::verif::MempoolMessage;
use mempool::{ConsensusMempoolMessage, Mempool, Parameters as MParameters};
use network::simnet::TcpListener;
use rand::rngs::StdRng;
use rand::{Rng as _, SeedableRng as _};
use serde_json::json;
use std::collections::BTreeSet;
use std::sync::{Arc, Mutex};
use store::Store;
use tokio::sync::mpsc::channel;
use tokio::time::{sleep, Duration};
use tokio_util::codec::{Framed, LengthDelimitedCodec};

const GC_DEPTH: u64 = 50;

#[derive(Clone, Debug)]
enum Step {
    Sync(Vec<Digest>, usize),
    Cleanup(u64),
    Supply(Digest),
    Wait(u64),
}

#[derive(Clone, Debug)]
struct Plan {
    n: usize,
    retry_ms: u64,
    steps: Vec<Step>,
}

fn rand_digest(rng: &mut StdRng) -> Digest {
    let mut b = [0u8; 32];
    rng.fill(&mut b);
    b[0] |= 1;
    Digest(b)
}

fn plan(rng: &mut StdRng) -> Plan {
    let n = rng.gen_range(4, 7);
    let retry_ms = [1_000u64, 2_000, 5_000][rng.gen_range(0, 3)];
    let mut steps = Vec::new();
    let mut round = 0u64;
    let mut open: Vec<Digest> = Vec::new();
    // sometimes requests come before the very first Cleanup, sometimes after
    if rng.gen_bool(0.5) {
        round = rng.gen_range(1, 4);
        steps.push(Step::Cleanup(round));
    }
    for _ in 0..rng.gen_range(3, 10) {
        match rng.gen_range(0, 10) {
            0..=3 => {
                let k = rng.gen_range(1, 4);
                let ds: Vec<Digest> = (0..k).map(|_| rand_digest(rng)).collect();
                open.extend(ds.iter().cloned());
                steps.push(Step::Sync(ds, rng.gen_range(1, n)));
            }
            4..=6 => {
                round += if rng.gen_bool(0.15) { GC_DEPTH + rng.gen_range(0, 20) } else { rng.gen_range(0, 4) };
                steps.push(Step::Cleanup(round));
            }
            7 => {
                if !open.is_empty() {
                    let k = rng.gen_range(0, open.len());
                    steps.push(Step::Supply(open.remove(k)));
                }
            }
            _ => steps.push(Step::Wait([10u64, 300, 900, 1_500, 3_000][rng.gen_range(0, 5)])),
        }
        if rng.gen_bool(0.5) {
            steps.push(Step::Wait(rng.gen_range(1, 400)));
        }
    }
    Plan { n, retry_ms, steps }
}

struct Req {
    digest: Digest,
    at_us: u64,
    reg_round: u64,
    target: usize,
}

pub fn run(class: &str, seed: u64, p: &Params) -> RunResult {
    let t0 = std::time::Instant::now();
    let mut report = Report::default();
    let mut classes: BTreeSet<String> = BTreeSet::new();
    let mut samples = Vec::new();
    let mut cases = 0u64;
    let mut rng = StdRng::seed_from_u64(seed ^ 0xc135);
    for i in 0..p.get_u64("scenarios").unwrap_or(12) {
        let pl = plan(&mut rng);
        let label = format!("{:?}", pl).chars().take(600).collect::<String>();
        let pl2 = pl.clone();
        let (seen, reqs, cleanups, supplied, end_us) = run_virtual(async move {
            let pl = pl2;
            evlog::begin();
            let ctl = net::install(seed.wrapping_add(i));
            {
                let mut c = ctl.lock().unwrap();
                c.lo_ms = 1;
                c.hi_ms = 5;
            }
            let topo = Arc::new(Topo::new(pl.n, vec![1; pl.n], seed));
            let scratch = Scratch::new("msync");
            let store = Store::new(&scratch.path("db")).expect("store");
            // (time us, peer, digests)
            let seen: Arc<Mutex<Vec<(u64, usize, Vec<Digest>)>>> = Default::default();
            for j in 1..pl.n {
                let listener = TcpListener::bind(std::net::SocketAddr::from(([0, 0, 0, 0], port(j, SVC_MEMPOOL)))).await.expect("bind");
                let seen = seen.clone();
                tokio::spawn(async move {
                    loop {
                        let (socket, _) = match listener.accept().await {
                            Ok(x) => x,
                            Err(_) => return,
                        };
                        let seen = seen.clone();
                        tokio::spawn(async move {
                            let mut framed = Framed::new(socket, LengthDelimitedCodec::new());
                            while let Some(Ok(frame)) = framed.next().await {
                                if let Ok(MempoolMessage::BatchRequest(ds, _)) = bincode::deserialize::<MempoolMessage>(&frame) {
                                    seen.lock().unwrap().push((evlog::now_us(), j, ds));
                                }
                            }
                        });
                    }
                });
            }
            let (tx_c2m, rx_c2m) = channel(1_000);
            let (tx_m2c, mut rx_m2c) = channel::<Digest>(10_000);
            tokio::spawn(async move { while rx_m2c.recv().await.is_some() {} });
            Mempool::spawn(
                topo.names[0],
                topo.mempool_committee(0),
                MParameters { gc_depth: GC_DEPTH, sync_retry_delay: pl.retry_ms, sync_retry_nodes: 3, batch_size: 500_000, max_batch_delay: 100 },
                store.clone(),
                rx_c2m,
                tx_m2c,
            );
            sleep(Duration::from_millis(5)).await;
            let mut reqs: Vec<Req> = Vec::new();
            let mut cleanups: Vec<(u64, u64)> = Vec::new();
            let mut supplied: Vec<(u64, Digest)> = Vec::new();
            let mut last_cleanup = 0u64;
            let mut st = store.clone();
            for s in &pl.steps {
                match s {
                    Step::Sync(ds, target) => {
                        for d in ds {
                            reqs.push(Req { digest: d.clone(), at_us: evlog::now_us(), reg_round: last_cleanup, target: *target });
                        }
                        let _ = tx_c2m.send(ConsensusMempoolMessage::Synchronize(ds.clone(), topo.names[*target])).await;
                    }
                    Step::Cleanup(r) => {
                        last_cleanup = *r;
                        cleanups.push((evlog::now_us(), *r));
                        let _ = tx_c2m.send(ConsensusMempoolMessage::Cleanup(*r)).await;
                    }
                    Step::Supply(d) => {
                        supplied.push((evlog::now_us(), d.clone()));
                        st.write(d.to_vec(), vec![1, 2, 3]).await;
                    }
                    Step::Wait(ms) => sleep(Duration::from_millis(*ms)).await,
                }
                // let the synchronizer take the command before the next one is stamped
                sleep(Duration::from_millis(1)).await;
            }
            sleep(Duration::from_millis(pl.retry_ms + 3_500)).await;
            let end_us = evlog::now_us();
            let _ = evlog::end();
            let seen = seen.lock().unwrap().clone();
            drop(scratch);
            (seen, reqs, cleanups, supplied, end_us)
        });
        cases += 1;
        let slack_us = 2_500_000u64;
        let mut below_gc = false;
        let mut gc_jump = false;
        for (_, r) in &cleanups {
            if *r < GC_DEPTH {
                below_gc = true;
            } else {
                gc_jump = true;
            }
        }
        for q in &reqs {
            report.count("C13.sync_requests_traced", 1);
            // first request reaches the designated target
            let first = seen.iter().any(|(t, j, ds)| *j == q.target && *t >= q.at_us && *t <= q.at_us + 500_000 && ds.contains(&q.digest));
            if !first {
                report.violate("C13", "batch-request-not-sent-to-target", format!("no BatchRequest for a requested batch reached the designated peer {} within 500 ms", q.target), vec![label.clone()]);
            }
            let deadline = q.at_us + q.retry_window(pl.retry_ms) + slack_us;
            if deadline > end_us {
                continue;
            }
            let supplied_at = supplied.iter().find(|(_, d)| *d == q.digest).map(|x| x.0);
            if supplied_at.map_or(false, |t| t <= deadline) {
                report.count("C13.sync_requests_satisfied_before_retry_deadline", 1);
                continue;
            }
            // abandoned for age: a Cleanup(R) with R >= gc_depth and reg_round <= R - gc_depth
            let aged = cleanups.iter().any(|(t, r)| *t <= deadline && *r >= GC_DEPTH && q.reg_round <= *r - GC_DEPTH);
            if aged {
                report.count("C13.sync_requests_abandoned_after_gc_depth", 1);
                continue;
            }
            let retried = seen.iter().any(|(t, _, ds)| *t > q.at_us + pl.retry_ms * 1000 && *t <= deadline && ds.contains(&q.digest));
            if retried {
                report.count("C13.sync_retries_observed", 1);
                report.sit("C13:retry_to_other_peers_observed");
            } else {
                report.violate(
                    "C13",
                    "missing-batch-not-requested-again",
                    format!(
                        "a batch requested at {} ms (consensus round {} then) had not arrived, the request was not older than gc_depth rounds, yet no BatchRequest for it reached any peer between {} ms and {} ms",
                        q.at_us / 1000,
                        q.reg_round,
                        (q.at_us + pl.retry_ms * 1000) / 1000,
                        deadline / 1000
                    ),
                    vec![label.clone()],
                );
            }
        }
        for (loc, msg, th) in evlog::take_panics() {
            report.violate("C15", format!("panic@{}", loc), format!("panic in thread {}: {}", th, msg), vec![label.clone()]);
        }
        classes.insert(format!("msync/retry{}/cleanup-below-gc:{}/gc-jump:{}", pl.retry_ms, below_gc, gc_jump));
        if samples.len() < 2 {
            samples.push(json!({"plan": label, "batch_requests_seen": seen.len()}));
        }
    }
    report.count("C13.synchronizer_scenarios", cases);
    RunResult {
        workload: "c13s".into(),
        class: class.into(),
        seed,
        params: json!({}),
        report,
        fingerprint: format!("{:016x}", seed),
        wall_ms: t0.elapsed().as_millis() as u64,
        virtual_ms: 0,
        sample: json!(samples),
        cases,
        classes: classes.into_iter().collect(),
    }
}

impl Req {
    fn retry_window(&self, retry_ms: u64) -> u64 {
        retry_ms * 1000
    }
}
