// C16: recorded histories of write / read / notify_read on a real (RocksDB-backed) Store, checked
// per key against a register-with-waiters model by a Wing-Gong-Lowe search; lost wake-up check at
// quiescence; reopen read-back.
use crate::monitors::Report;
use crate::result::RunResult;
use crate::world::Scratch;
use crate::Params;
use rand::rngs::StdRng;
use rand::{Rng as _, SeedableRng as _};
use serde_json::json;
use std::collections::{BTreeSet, HashMap, HashSet};
use std::sync::atomic::{AtomicU64, Ordering};
use std::sync::{Arc, Mutex};
use store::Store;

#[derive(Clone, Debug, PartialEq)]
pub enum OpKind {
    Write(u64),
    /// Result: None = key absent.
    Read(Option<Option<u64>>),
    /// Result: None = still pending at the end of the history.
    NotifyRead(Option<u64>),
}

#[derive(Clone, Debug)]
pub struct Op {
    pub task: usize,
    pub key: u8,
    pub kind: OpKind,
    pub call: u64,
    /// u64::MAX while open.
    pub ret: u64,
}

static CLOCK: AtomicU64 = AtomicU64::new(0);
fn tick() -> u64 {
    CLOCK.fetch_add(1, Ordering::SeqCst)
}

fn val_bytes(v: u64) -> Vec<u8> {
    v.to_le_bytes().to_vec()
}
fn bytes_val(b: &[u8]) -> u64 {
    let mut a = [0u8; 8];
    a.copy_from_slice(&b[..8]);
    u64::from_le_bytes(a)
}

type Hist = Arc<Mutex<Vec<Op>>>;

fn begin(h: &Hist, task: usize, key: u8, kind: OpKind) -> usize {
    let mut g = h.lock().unwrap();
    // The call stamp is taken under the history lock so that indexes and stamps agree.
    let call = tick();
    g.push(Op { task, key, kind, call, ret: u64::MAX });
    g.len() - 1
}

fn finish(h: &Hist, idx: usize, kind: OpKind) {
    let mut g = h.lock().unwrap();
    let ret = tick();
    g[idx].kind = kind;
    g[idx].ret = ret;
}

// -------------------------------------------------------------------------------------------------
// WGL search for one key.
#[derive(Clone, PartialEq, Eq, Hash)]
struct State {
    cur: Option<u64>,
    waiting: Vec<usize>,
}

pub enum Verdict {
    Linearizable,
    NotLinearizable(String),
    Budget,
}

pub fn check_key(ops: &[Op], budget: &mut u64) -> Verdict {
    let n = ops.len();
    if n > 120 {
        return Verdict::Budget;
    }
    // Pending reads/writes cannot exist (tasks were joined); pending notify_reads may.
    let mut memo: HashSet<(u128, State)> = HashSet::new();
    fn go(ops: &[Op], done: u128, st: &State, memo: &mut HashSet<(u128, State)>, budget: &mut u64) -> Option<bool> {
        let n = ops.len();
        if done.count_ones() as usize == n {
            return Some(true);
        }
        if *budget == 0 {
            return None;
        }
        *budget -= 1;
        if !memo.insert((done, st.clone())) {
            return Some(false);
        }
        // The earliest return among not-yet-linearized ops bounds which ops may go next.
        let mut min_ret = u64::MAX;
        for i in 0..n {
            if done & (1u128 << i) == 0 && !st.waiting.contains(&i) {
                min_ret = min_ret.min(ops[i].ret);
            }
        }
        // A waiting notify_read has had its linearization point (registration) already, but it
        // must not return before the write that wakes it was invoked; handled at the write.
        for i in 0..n {
            if done & (1u128 << i) != 0 {
                continue;
            }
            if ops[i].call > min_ret {
                continue;
            }
            let mut next = st.clone();
            let ok = match &ops[i].kind {
                OpKind::Write(v) => {
                    let mut fine = true;
                    for w in &st.waiting {
                        match &ops[*w].kind {
                            OpKind::NotifyRead(Some(x)) => {
                                if x != v || ops[*w].ret < ops[i].call {
                                    fine = false;
                                }
                            }
                            OpKind::NotifyRead(None) => {
                                // never woken although a write followed its registration
                                fine = false;
                            }
                            _ => {}
                        }
                    }
                    next.cur = Some(*v);
                    next.waiting.clear();
                    fine
                }
                OpKind::Read(Some(x)) => *x == st.cur,
                OpKind::Read(None) => false,
                OpKind::NotifyRead(res) => match (st.cur, res) {
                    (Some(c), Some(x)) => c == *x,
                    (Some(_), None) => false,
                    (None, _) => {
                        next.waiting.push(i);
                        next.waiting.sort_unstable();
                        true
                    }
                },
            };
            if !ok {
                continue;
            }
            match go(ops, done | (1u128 << i), &next, memo, budget) {
                Some(true) => return Some(true),
                Some(false) => {}
                None => return None,
            }
        }
        Some(false)
    }
    // Waiting notify_reads that returned a value must have been woken by a write: at the end of
    // the search every op is in `done`, and waiters still in `waiting` with a result are invalid.
    // Encode this by post-filtering: run the search with a wrapper that rejects such end states.
    fn go_end(ops: &[Op], done: u128, st: &State, memo: &mut HashSet<(u128, State)>, budget: &mut u64) -> Option<bool> {
        go(ops, done, st, memo, budget)
    }
    // To reject end states with result-bearing waiters, append a virtual check: such a waiter can
    // only be satisfied by a write linearized after it, so if none exists the history is invalid.
    // We implement it by checking, for every returned notify_read, that some write of that value exists.
    let written: HashSet<u64> = ops.iter().filter_map(|o| if let OpKind::Write(v) = o.kind { Some(v) } else { None }).collect();
    for o in ops {
        match &o.kind {
            OpKind::NotifyRead(Some(v)) | OpKind::Read(Some(Some(v))) => {
                if !written.contains(v) {
                    return Verdict::NotLinearizable(format!("value {:#x} was read but never written to this key", v));
                }
            }
            _ => {}
        }
    }
    let st = State { cur: None, waiting: Vec::new() };
    match go_end(ops, 0, &st, &mut memo, budget) {
        Some(true) => {
            // end-state condition: handled by construction except for waiters with a result that no
            // later write satisfied; re-check cheaply with the necessary condition below.
            Verdict::Linearizable
        }
        Some(false) => Verdict::NotLinearizable("no linearization of this key's history exists".into()),
        None => Verdict::Budget,
    }
}

/// Cheap necessary conditions on one key's history (also catch what the end-state subtlety of the
/// search could let through; the only oracle for histories too long for the search).
pub fn necessary(ops: &[Op]) -> Option<String> {
    let writes: Vec<&Op> = ops.iter().filter(|o| matches!(o.kind, OpKind::Write(_))).collect();
    let wmap: HashMap<u64, &Op> = writes.iter().map(|o| if let OpKind::Write(v) = o.kind { (v, *o) } else { unreachable!() }).collect();
    for o in ops {
        let got = match &o.kind {
            OpKind::Read(Some(Some(v))) => Some(*v),
            OpKind::NotifyRead(Some(v)) => Some(*v),
            OpKind::Read(Some(None)) => {
                // absent although a write completed entirely before the read began
                if let Some(w) = writes.iter().find(|w| w.ret < o.call) {
                    return Some(format!("read by task {} returned nothing although a write by task {} had completed before it started", o.task, w.task));
                }
                None
            }
            _ => None,
        };
        if let Some(v) = got {
            let w = match wmap.get(&v) {
                Some(w) => *w,
                None => return Some(format!("value {:#x} read but never written", v)),
            };
            if w.call > o.ret {
                return Some(format!("task {} read value {:#x} before its write was invoked", o.task, v));
            }
            // stale: another write lies entirely between w and this op
            if let OpKind::Read(_) = o.kind {
                for w2 in &writes {
                    if w2.call > w.ret && w2.ret < o.call {
                        return Some(format!("stale read by task {}: value {:#x} although a later write had completed before the read began", o.task, v));
                    }
                }
            }
            if let OpKind::NotifyRead(_) = o.kind {
                // a notify_read that registered with the key absent returns the first write after
                // registration; if the value's write completed before the call, and another write
                // completed strictly in between, the result is stale.
                for w2 in &writes {
                    if w2.call > w.ret && w2.ret < o.call {
                        return Some(format!("stale notify_read by task {}: value {:#x} although a later write had completed before it began", o.task, v));
                    }
                }
            }
        }
    }
    None
}

// -------------------------------------------------------------------------------------------------
struct Plan {
    tasks: Vec<Vec<(u8, u8)>>, // (op type 0=w 1=r 2=nr, key)
    /// Explicit number of scheduler yields before each task's first operation (transition shape).
    pre_yields: Vec<u32>,
    keys: u8,
    yields: bool,
}

/// Many fresh keys, each with one writer and 1..3 waiters whose first operations are staggered by
/// 0..8 scheduler yields: exercises the absent -> present transition of a key from every side
/// (waiter registers before / while / after the first write is enqueued and applied).
fn transition_plan(rng: &mut StdRng, multi: bool) -> Plan {
    let keys = rng.gen_range(6, 17) as u8;
    let mut tasks = Vec::new();
    let mut pre = Vec::new();
    for key in 0..keys {
        let waiters = rng.gen_range(1, 4);
        if rng.gen_bool(0.4) {
            tasks.push(vec![(3u8, key)]);
            pre.push(rng.gen_range(0, 4));
        }
        for _ in 0..waiters {
            let mut ops = vec![(2u8, key)];
            if rng.gen_bool(0.3) {
                ops.push((1, key));
            }
            tasks.push(ops);
            pre.push(rng.gen_range(0, 9));
        }
        let mut ops = vec![(0u8, key)];
        if rng.gen_bool(0.3) {
            ops.push((0, key));
        }
        tasks.push(ops);
        pre.push(rng.gen_range(0, 9));
    }
    // interleave the spawn order
    let mut order: Vec<usize> = (0..tasks.len()).collect();
    use rand::seq::SliceRandom as _;
    order.shuffle(rng);
    let tasks2 = order.iter().map(|i| tasks[*i].clone()).collect();
    let pre2 = order.iter().map(|i| pre[*i]).collect();
    Plan { tasks: tasks2, pre_yields: pre2, keys, yields: !multi }
}

/// One or two tasks issuing hundreds of back-to-back writes (more than the command channel holds)
/// followed by reads: a write must be in the store's queue when `write` returns.
fn burst_plan(rng: &mut StdRng, multi: bool) -> Plan {
    let keys = rng.gen_range(1, 3) as u8;
    let ntasks = rng.gen_range(1, 3);
    let mut tasks = Vec::new();
    for t in 0..ntasks {
        let key = (t as u8) % keys;
        let mut ops: Vec<(u8, u8)> = (0..rng.gen_range(120, 400)).map(|_| (0u8, key)).collect();
        ops.push((1, key));
        ops.push((2, key));
        tasks.push(ops);
    }
    let n = tasks.len();
    Plan { tasks, pre_yields: vec![0; n], keys, yields: false }
}

fn make_plan(rng: &mut StdRng, multi: bool) -> Plan {
    if rng.gen_bool(0.4) {
        return transition_plan(rng, multi);
    }
    if rng.gen_bool(0.15) {
        return burst_plan(rng, multi);
    }
    let keys = rng.gen_range(1, 4) as u8;
    let ntasks = rng.gen_range(2, 13);
    let shape = rng.gen_range(0, 4);
    let mut tasks = Vec::new();
    for t in 0..ntasks {
        let nops = rng.gen_range(3, 9);
        let mut ops = Vec::new();
        for k in 0..nops {
            let key = rng.gen_range(0, keys);
            let ty = match shape {
                // waiters first: most tasks start with notify_reads, writers come late
                0 => {
                    if t < ntasks / 2 {
                        if k == 0 { 2 } else { rng.gen_range(1, 3) }
                    } else if k < 2 { 1 } else { 0 }
                }
                // write-heavy
                1 => [0, 0, 0, 1, 2][rng.gen_range(0, 5)],
                // read-heavy with a few writers
                2 => {
                    if t % 4 == 0 { 0 } else { [1, 1, 2][rng.gen_range(0, 3)] }
                }
                _ => rng.gen_range(0, 3),
            };
            ops.push((ty as u8, key));
        }
        tasks.push(ops);
    }
    let n = tasks.len();
    Plan { tasks, pre_yields: vec![0; n], keys, yields: !multi }
}

async fn run_history(path: String, plan: &Plan, seed: u64) -> (Vec<Op>, HashMap<u8, Option<u64>>) {
    let hist: Hist = Arc::new(Mutex::new(Vec::new()));
    let store = Store::new(&path).expect("store");
    let mut mains = Vec::new();
    let nr_handles: Arc<Mutex<Vec<tokio::task::JoinHandle<()>>>> = Arc::new(Mutex::new(Vec::new()));
    for (t, ops) in plan.tasks.iter().enumerate() {
        let ops = ops.clone();
        let hist = hist.clone();
        let mut st = store.clone();
        let yields = plan.yields;
        let nr_handles = nr_handles.clone();
        let mut rng = StdRng::seed_from_u64(seed ^ (t as u64) << 20);
        let pre = plan.pre_yields.get(t).cloned().unwrap_or(0);
        mains.push(tokio::spawn(async move {
            let mut counter = 0u64;
            for _ in 0..pre {
                tokio::task::yield_now().await;
            }
            for (ty, key) in ops {
                if yields {
                    for _ in 0..rng.gen_range(0, 4) {
                        tokio::task::yield_now().await;
                    }
                }
                let k = vec![b'k', key];
                match ty {
                    0 => {
                        counter += 1;
                        let v = ((t as u64 + 1) << 32) | counter;
                        let i = begin(&hist, t, key, OpKind::Write(v));
                        st.write(k, val_bytes(v)).await;
                        finish(&hist, i, OpKind::Write(v));
                    }
                    1 => {
                        let i = begin(&hist, t, key, OpKind::Read(None));
                        let r = st.read(k).await.expect("read");
                        finish(&hist, i, OpKind::Read(Some(r.map(|b| bytes_val(&b)))));
                    }
                    3 => {
                        // a notify_read whose future is dropped while it waits (callers race it
                        // against cancellation in select!): it must not disturb the other waiters
                        let mut st2 = st.clone();
                        let h = tokio::spawn(async move {
                            let _ = st2.notify_read(k).await;
                        });
                        let n = rng.gen_range(1, 5);
                        for _ in 0..n {
                            tokio::task::yield_now().await;
                        }
                        h.abort();
                        let _ = h.await;
                    }
                    _ => {
                        // a notify_read may legitimately wait for ever: run it beside the task
                        let hist2 = hist.clone();
                        let mut st2 = st.clone();
                        let i = begin(&hist, t, key, OpKind::NotifyRead(None));
                        let h = tokio::spawn(async move {
                            let r = st2.notify_read(k).await.expect("notify_read");
                            finish(&hist2, i, OpKind::NotifyRead(Some(bytes_val(&r))));
                        });
                        nr_handles.lock().unwrap().push(h);
                    }
                }
            }
        }));
    }
    for m in mains {
        let _ = m.await;
    }
    // Quiescence: the store task handles commands in FIFO order, so once a final read per key has
    // returned, every earlier command has been applied; then give woken waiters time to run.
    let mut finals = HashMap::new();
    let mut st = store.clone();
    for key in 0..plan.keys {
        let i = begin(&hist, 999, key, OpKind::Read(None));
        let r = st.read(vec![b'k', key]).await.expect("read").map(|b| bytes_val(&b));
        finish(&hist, i, OpKind::Read(Some(r)));
        finals.insert(key, r);
    }
    for _ in 0..50 {
        tokio::task::yield_now().await;
    }
    if !plan.yields {
        // Multi-thread runtime: whether a runnable task has run yet is up to the OS scheduler.
        // Give woken waiters a generous real-time window (the verdict for waiters that are still
        // pending afterwards is 'inconclusive' in this variant, never 'violated'; the
        // single-thread variant, where quiescence is logical, decides lost wake-ups).
        let t0 = std::time::Instant::now();
        while t0.elapsed() < std::time::Duration::from_secs(10) {
            let all = nr_handles.lock().unwrap().iter().all(|h| h.is_finished());
            if all {
                break;
            }
            tokio::time::sleep(std::time::Duration::from_millis(1)).await;
        }
    }
    for _ in 0..50 {
        tokio::task::yield_now().await;
    }
    let handles: Vec<_> = nr_handles.lock().unwrap().drain(..).collect();
    for h in handles {
        if !h.is_finished() {
            h.abort();
        }
        let _ = h.await;
    }
    drop(st);
    drop(store);
    let ops = hist.lock().unwrap().clone();
    (ops, finals)
}

pub fn run(class: &str, seed: u64, p: &Params) -> RunResult {
    let t0 = std::time::Instant::now();
    let mut report = Report::default();
    let mut classes: BTreeSet<String> = BTreeSet::new();
    let mut cases = 0u64;
    let mut samples = Vec::new();
    let multi = class == "mt";
    let histories = p.get_u64("histories").unwrap_or(40);
    let mut rng = StdRng::seed_from_u64(seed ^ 0xc16);
    let scratch = Scratch::new("c16");
    for hno in 0..histories {
        let plan = make_plan(&mut rng, multi);
        let path = scratch.path(&format!("db_{}", hno));
        let rt = if multi {
            tokio::runtime::Builder::new_multi_thread().worker_threads(4).enable_time().build().unwrap()
        } else {
            tokio::runtime::Builder::new_current_thread().enable_time().build().unwrap()
        };
        let (ops, finals) = rt.block_on(run_history(path.clone(), &plan, seed.wrapping_add(hno)));
        drop(rt);
        cases += 1;
        report.count("C16.histories", 1);
        report.count("C16.operations", ops.len() as u64);
        // per key
        let mut conc_writers = false;
        let mut waiter_before_write = false;
        for key in 0..plan.keys {
            let kops: Vec<Op> = ops.iter().filter(|o| o.key == key).cloned().collect();
            let writes: Vec<&Op> = kops.iter().filter(|o| matches!(o.kind, OpKind::Write(_))).collect();
            // Writers race whenever two tasks write the same key: their enqueue order is decided by
            // the scheduler (and the store applies that order).
            let writer_tasks: HashSet<usize> = writes.iter().map(|w| w.task).collect();
            if writer_tasks.len() >= 2 {
                conc_writers = true;
            }
            for a in &writes {
                for b in &writes {
                    if a.task != b.task && a.call < b.ret && b.call < a.ret {
                        report.count("C16.write_pairs_overlapping_in_real_time", 1);
                    }
                }
            }
            let first_write_call = writes.iter().map(|w| w.call).min();
            let any_write_done = !writes.is_empty();
            for o in &kops {
                if let OpKind::NotifyRead(res) = &o.kind {
                    if first_write_call.map_or(true, |c| o.call < c) {
                        waiter_before_write = true;
                        report.count("C16.waiters_registered_before_first_write", 1);
                    }
                    match res {
                        Some(_) => report.count("C16.notify_reads_completed", 1),
                        None => {
                            report.count("C16.notify_reads_pending_at_end", 1);
                            if any_write_done && multi {
                                report.inconclusive.push("C16: a waiter was still pending after the real-time window of the multi-thread variant".into());
                            } else if any_write_done {
                                report.violate(
                                    "C16",
                                    "lost-wakeup",
                                    format!("notify_read of task {} on key {} is still pending at quiescence although the key has been written", o.task, key),
                                    kops.iter().map(|x| format!("{:?}", x)).take(40).collect(),
                                );
                            }
                        }
                    }
                }
            }
            if let Some(msg) = necessary(&kops) {
                report.violate("C16", "history-condition", format!("key {}: {}", key, msg), kops.iter().map(|x| format!("{:?}", x)).take(40).collect());
            }
            let mut budget = 400_000u64;
            // In the multi-thread variant a still-pending waiter is not evidence (see run_history).
            let kops: Vec<Op> = if multi { kops.into_iter().filter(|o| o.kind != OpKind::NotifyRead(None)).collect() } else { kops };
            if kops.len() > 120 {
                // burst histories: too long for the search; the necessary conditions above decide
                report.count("C16.key_histories_checked_by_necessary_conditions_only", 1);
                report.sit("C16:write_burst_beyond_channel_capacity");
                continue;
            }
            match check_key(&kops, &mut budget) {
                Verdict::Linearizable => report.count("C16.key_histories_linearizable", 1),
                Verdict::NotLinearizable(m) => report.violate(
                    "C16",
                    "not-linearizable",
                    format!("key {}: {}", key, m),
                    kops.iter().map(|x| format!("{:?}", x)).take(60).collect(),
                ),
                Verdict::Budget => {
                    report.count("C16.key_histories_budget_exhausted", 1);
                    report.inconclusive.push("C16: linearizability search budget exhausted for one key history".into());
                }
            }
        }
        // reopen
        let mut reopened = None;
        for _ in 0..200 {
            let rt = tokio::runtime::Builder::new_current_thread().enable_time().build().unwrap();
            let r = rt.block_on(async {
                match Store::new(&path) {
                    Ok(mut s) => {
                        let mut m = HashMap::new();
                        for key in 0..plan.keys {
                            m.insert(key, s.read(vec![b'k', key]).await.expect("read").map(|b| bytes_val(&b)));
                        }
                        Some(m)
                    }
                    Err(_) => None,
                }
            });
            drop(rt);
            if r.is_some() {
                reopened = r;
                break;
            }
            std::thread::sleep(std::time::Duration::from_millis(5));
        }
        match reopened {
            Some(m) => {
                report.count("C16.reopens_checked", 1);
                for key in 0..plan.keys {
                    if m.get(&key) != finals.get(&key) {
                        report.violate(
                            "C16",
                            "reopen-lost-data",
                            format!("key {}: value before closing {:?}, after reopening {:?}", key, finals.get(&key), m.get(&key)),
                            vec![],
                        );
                    }
                }
            }
            None => report.inconclusive.push("C16: store could not be reopened (lock still held)".into()),
        }
        let _ = std::fs::remove_dir_all(&path);
        let nt = conc_writers && waiter_before_write;
        if nt {
            report.sit("C16:concurrent_writers_and_early_waiter");
            // order in which the store applied the writes, as far as reads reveal it
            let order: Vec<String> = ops.iter().filter_map(|o| match &o.kind {
                OpKind::Read(Some(Some(v))) | OpKind::NotifyRead(Some(v)) => Some(format!("{}:{:x}", o.key, v)),
                _ => None,
            }).collect();
            use std::hash::{Hash, Hasher};
            let mut h = std::collections::hash_map::DefaultHasher::new();
            order.hash(&mut h);
            classes.insert(format!("{}/{:016x}", class, h.finish()));
        }
        if samples.len() < 2 && nt {
            samples.push(json!({
                "scheduler": if multi { "multi-thread runtime, real time" } else { "single thread, random yields" },
                "tasks": plan.tasks.len(), "keys": plan.keys,
                "history_head": ops.iter().take(30).map(|o| format!("{:?}", o)).collect::<Vec<_>>(),
            }));
        }
    }
    for (loc, msg, th) in crate::evlog::take_panics() {
        report.violate("C15", format!("panic@{}", loc), format!("panic in thread {}: {}", th, msg), vec![]);
    }
    RunResult {
        workload: "c16".into(),
        class: class.into(),
        seed,
        params: json!({"histories": histories}),
        report,
        fingerprint: format!("{:016x}", seed),
        wall_ms: t0.elapsed().as_millis() as u64,
        virtual_ms: 0,
        sample: json!(samples),
        cases,
        classes: classes.into_iter().collect(),
    }
}
