// C14: a real ReliableSender talking to a harness peer over the simulated network, with every
// single connection-fault point of a set of base scenarios enumerated, then random multi-fault
// sequences. Oracle over hand-over / drop / resolve events and the peer-side frame log.
use crate::cluster::run_virtual;
use crate::evlog::{self, Kind};
use crate::monitors::Report;
use crate::net;
use crate::result::RunResult;
use crate::world::{addr, port};
use crate::Params;
use bytes::Bytes;
use futures::stream::StreamExt as _;
use futures::SinkExt as _;
use network::simnet::{ConnectDecision, Dir, FrameDecision, TcpListener};
use network::{CancelHandler, ReliableSender};
use rand::rngs::StdRng;
use rand::{Rng as _, SeedableRng as _};
use serde_json::json;
use std::collections::{BTreeSet, HashMap};
use std::sync::{Arc, Mutex};
use tokio::time::{sleep, Duration};
use tokio_util::codec::{Framed, LengthDelimitedCodec};

const SVC: u8 = 3;
const SENDER: usize = 0;
const PEER: usize = 1;

#[derive(Clone, Debug)]
pub enum CutMode {
    Before,
    Inside,
    After,
}

#[derive(Clone, Debug)]
pub enum Fault {
    /// Refuse the connect attempts with these ordinals (1-based, counted over the whole run).
    Refuse(Vec<u64>),
    /// On the k-th established connection (1-based), cut at frame `idx` of direction `dir`.
    Cut { conn: u64, to_server: bool, idx: u64, mode: CutMode },
    /// The peer's listener disappears at `at_ms` (open connections reset) and comes back later.
    Restart { at_ms: u64, down_ms: u64 },
}

#[derive(Clone, Debug)]
pub enum Step {
    Send { at_ms: u64, id: u32, len: usize },
    Drop { at_ms: u64, id: u32 },
}

#[derive(Clone, Debug)]
pub struct Scenario {
    pub steps: Vec<Step>,
    pub faults: Vec<Fault>,
    /// Peer replies after this many ms (0 = at once); ids in `silent` are never acknowledged.
    pub reply_delay_ms: u64,
    pub silent: Vec<u32>,
    /// Random per-frame / per-connect fault probabilities (multi-fault mode) until `chaos_until_ms`.
    pub chaos: f64,
    pub chaos_until_ms: u64,
    pub label: String,
}

fn payload(id: u32, len: usize) -> Bytes {
    let mut v = format!("msg:{:08}:", id).into_bytes();
    while v.len() < len.max(13) {
        v.push(b'a' + (v.len() % 23) as u8);
    }
    Bytes::from(v)
}

fn id_of(data: &[u8]) -> Option<u32> {
    if data.len() >= 12 && &data[..4] == b"msg:" {
        std::str::from_utf8(&data[4..12]).ok()?.parse().ok()
    } else {
        None
    }
}

#[derive(Clone, Debug)]
enum HEv {
    Handed { id: u32 },
    Dropped { id: u32 },
    Resolved { id: u32, value: Vec<u8> },
    /// The handle completed with an error: the sender dropped the message although the handle was kept.
    Abandoned { id: u32 },
}

fn execute(sc: &Scenario, seed: u64) -> (Vec<evlog::Ev>, Vec<(u64, HEv)>) {
    let sc = sc.clone();
    run_virtual(async move {
        evlog::begin();
        let ctl = net::install(seed);
        {
            let mut c = ctl.lock().unwrap();
            c.lo_ms = 1;
            c.hi_ms = 5;
            let faults = sc.faults.clone();
            let connects = Arc::new(Mutex::new((0u64, 0u64, HashMap::<u64, u64>::new()))); // attempts, established, conn id -> ordinal
            let c2 = connects.clone();
            let (chaos, chaos_until) = (sc.chaos, sc.chaos_until_ms);
            c.connect_hook = Some(Box::new(move |_route, conn, rng| {
                let mut g = c2.lock().unwrap();
                g.0 += 1;
                let attempt = g.0;
                for f in &faults {
                    if let Fault::Refuse(list) = f {
                        if list.contains(&attempt) {
                            return Some(ConnectDecision::Refuse);
                        }
                    }
                }
                if chaos > 0.0 && evlog::now_us() / 1000 < chaos_until && rng.gen_bool(chaos) {
                    return Some(ConnectDecision::Refuse);
                }
                g.1 += 1;
                let ord = g.1;
                g.2.insert(conn, ord);
                None
            }));
            let faults = sc.faults.clone();
            let c3 = connects.clone();
            c.frame_hook = Some(Box::new(move |ctx, rng| {
                let ord = *c3.lock().unwrap().2.get(&ctx.conn).unwrap_or(&0);
                for f in &faults {
                    if let Fault::Cut { conn, to_server, idx, mode } = f {
                        if *conn == ord && *to_server == (ctx.dir == Dir::ToServer) && *idx == ctx.idx {
                            return Some(match mode {
                                CutMode::Before => FrameDecision::CutBefore,
                                CutMode::After => FrameDecision::CutAfter { delay_ms: 2 },
                                CutMode::Inside => FrameDecision::CutInside { bytes: 1 + (ctx.frame.len() / 2), delay_ms: 2 },
                            });
                        }
                    }
                }
                if chaos > 0.0 && evlog::now_us() / 1000 < chaos_until && rng.gen_bool(chaos) {
                    return Some(match rng.gen_range(0, 3) {
                        0 => FrameDecision::CutBefore,
                        1 => FrameDecision::CutAfter { delay_ms: rng.gen_range(1, 20) },
                        _ => FrameDecision::CutInside { bytes: rng.gen_range(1, ctx.frame.len() + 4), delay_ms: rng.gen_range(1, 20) },
                    });
                }
                None
            }));
        }
        let hev: Arc<Mutex<Vec<(u64, HEv)>>> = Arc::new(Mutex::new(Vec::new()));
        // ---- peer
        let peer_up = Arc::new(Mutex::new(true));
        let spawn_peer = {
            let sc = sc.clone();
            move || {
                let sc = sc.clone();
                tokio::spawn(async move {
                    let listener = loop {
                        match TcpListener::bind(std::net::SocketAddr::from(([0, 0, 0, 0], port(PEER, SVC)))).await {
                            Ok(l) => break l,
                            Err(_) => sleep(Duration::from_millis(5)).await,
                        }
                    };
                    loop {
                        let (socket, _) = match listener.accept().await {
                            Ok(x) => x,
                            Err(_) => return,
                        };
                        let sc = sc.clone();
                        tokio::spawn(async move {
                            let mut framed = Framed::new(socket, LengthDelimitedCodec::new());
                            // Replies are paired with frames by position on the connection (the
                            // protocol has no message ids), so a peer cannot skip one reply and send
                            // later ones: a silent peer stops replying on this connection altogether.
                            let mut mute = false;
                            while let Some(Ok(frame)) = framed.next().await {
                                let id = id_of(&frame);
                                if let Some(id) = id {
                                    if sc.silent.contains(&id) {
                                        mute = true;
                                    }
                                    if mute {
                                        continue;
                                    }
                                    if sc.reply_delay_ms > 0 {
                                        sleep(Duration::from_millis(sc.reply_delay_ms)).await;
                                    }
                                    if framed.send(Bytes::from(format!("ack:{:08}", id))).await.is_err() {
                                        break;
                                    }
                                }
                            }
                        });
                    }
                })
            }
        };
        let mut peer_task = spawn_peer();
        // ---- timeline
        #[derive(Clone)]
        enum T {
            S(Step),
            Down,
            Up,
        }
        let mut timeline: Vec<(u64, T)> = Vec::new();
        for s in &sc.steps {
            let at = match s {
                Step::Send { at_ms, .. } | Step::Drop { at_ms, .. } => *at_ms,
            };
            timeline.push((at, T::S(s.clone())));
        }
        for f in &sc.faults {
            if let Fault::Restart { at_ms, down_ms } = f {
                timeline.push((*at_ms, T::Down));
                timeline.push((*at_ms + *down_ms, T::Up));
            }
        }
        timeline.sort_by_key(|x| x.0);
        let mut sender = ReliableSender::new();
        let dst = addr(SENDER, PEER, SVC);
        let handles: Arc<Mutex<HashMap<u32, tokio::task::JoinHandle<()>>>> = Arc::new(Mutex::new(HashMap::new()));
        let mut now = 0u64;
        let mut last_event = 0u64;
        for (at, t) in timeline {
            if at > now {
                sleep(Duration::from_millis(at - now)).await;
                now = at;
            }
            last_event = last_event.max(at);
            match t {
                T::S(Step::Send { id, len, .. }) => {
                    hev.lock().unwrap().push((evlog::push(Kind::Note { what: format!("handed {}", id) }), HEv::Handed { id }));
                    let h: CancelHandler = sender.send(dst, payload(id, len)).await;
                    let hev2 = hev.clone();
                    // The handle lives in a task that records its resolution; dropping = aborting it.
                    let jh = tokio::spawn(async move {
                        match h.await {
                            Ok(bytes) => {
                                let seq = evlog::push(Kind::Note { what: format!("resolved {}", id) });
                                hev2.lock().unwrap().push((seq, HEv::Resolved { id, value: bytes.to_vec() }));
                            }
                            Err(_) => {
                                let seq = evlog::push(Kind::Note { what: format!("abandoned {}", id) });
                                hev2.lock().unwrap().push((seq, HEv::Abandoned { id }));
                            }
                        }
                    });
                    handles.lock().unwrap().insert(id, jh);
                }
                T::S(Step::Drop { id, .. }) => {
                    if let Some(jh) = handles.lock().unwrap().remove(&id) {
                        if !jh.is_finished() {
                            jh.abort();
                            let _ = jh.await;
                            hev.lock().unwrap().push((evlog::push(Kind::Note { what: format!("dropped {}", id) }), HEv::Dropped { id }));
                        }
                    }
                }
                T::Down => {
                    evlog::note("peer down");
                    *peer_up.lock().unwrap() = false;
                    peer_task.abort();
                    network::simnet::close_listener(port(PEER, SVC));
                    network::simnet::reset_connections(|_| true);
                }
                T::Up => {
                    evlog::note("peer up");
                    *peer_up.lock().unwrap() = true;
                    peer_task = spawn_peer();
                }
            }
        }
        // Quiet period: longer than the maximum back-off (60 s) plus everything in flight.
        let quiet = sc.chaos_until_ms.max(last_event).saturating_sub(now) + 300_000;
        sleep(Duration::from_millis(quiet)).await;
        let log = evlog::end();
        let h = hev.lock().unwrap().clone();
        drop(sender);
        (log, h)
    })
}

fn judge(sc: &Scenario, log: &[evlog::Ev], hev: &[(u64, HEv)], r: &mut Report) -> Vec<String> {
    let mut facts = Vec::new();
    let mut handed: Vec<(u32, u64)> = Vec::new();
    let mut dropped: HashMap<u32, u64> = HashMap::new();
    let mut resolved: HashMap<u32, (u64, Vec<u8>)> = HashMap::new();
    for (seq, e) in hev {
        match e {
            HEv::Handed { id } => handed.push((*id, *seq)),
            HEv::Dropped { id } => {
                dropped.insert(*id, *seq);
            }
            HEv::Resolved { id, value } => {
                resolved.insert(*id, (*seq, value.clone()));
            }
            HEv::Abandoned { id } => {
                r.violate(
                    "C14",
                    "kept-handle-completed-without-reply",
                    format!("the handle of message {} was kept, yet it completed with an error: the sender gave the message up instead of retransmitting it until acknowledged", id),
                    vec![sc.label.clone()],
                );
            }
        }
    }
    // Peer-side observations.
    let mut first_rx: HashMap<u32, u64> = HashMap::new();
    let mut rx_count: HashMap<u32, u64> = HashMap::new();
    let mut ack_written: HashMap<u32, u64> = HashMap::new();
    let mut ack_delivered: HashMap<u32, u64> = HashMap::new();
    let mut tx_on_conn: Vec<(u64, u32, u64)> = Vec::new(); // (seq, id, conn)
    let mut conn_established: HashMap<u64, u64> = HashMap::new(); // conn -> seq
    let mut open: BTreeSet<u64> = BTreeSet::new();
    let mut open_at: Vec<(u64, usize)> = Vec::new(); // (seq, #open connections after the event)
    for ev in log {
        match &ev.kind {
            Kind::Connect { conn, ok, .. } => {
                if *ok {
                    conn_established.insert(*conn, ev.seq);
                    open.insert(*conn);
                    open_at.push((ev.seq, open.len()));
                }
            }
            Kind::Closed { conn, .. } => {
                open.remove(conn);
                open_at.push((ev.seq, open.len()));
            }
            Kind::FrameIn { frame } if frame.dir == Dir::ToServer => {
                {
                    if let Some(id) = id_of(&frame.data) {
                        first_rx.entry(id).or_insert(ev.seq);
                        *rx_count.entry(id).or_default() += 1;
                    } else {
                        r.violate("C14", "corrupt-frame-received", format!("the peer received a complete frame that is not one of the messages handed over ({} bytes)", frame.data.len()), vec![sc.label.clone()]);
                    }
                }
            }
            Kind::FrameOut { frame, .. } => {
                if frame.dir == Dir::ToServer {
                    if let Some(id) = id_of(&frame.data) {
                        tx_on_conn.push((ev.seq, id, frame.conn));
                    }
                } else if frame.data.len() == 12 && &frame.data[..4] == b"ack:" {
                    if let Some(id) = std::str::from_utf8(&frame.data[4..12]).ok().and_then(|s| s.parse::<u32>().ok()) {
                        ack_written.entry(id).or_insert(ev.seq);
                    }
                }
            }
            Kind::FrameIn { frame } if frame.dir == Dir::ToClient => {
                if frame.data.len() == 12 && &frame.data[..4] == b"ack:" {
                    if let Some(id) = std::str::from_utf8(&frame.data[4..12]).ok().and_then(|s| s.parse::<u32>().ok()) {
                        ack_delivered.entry(id).or_insert(ev.seq);
                    }
                }
            }
            _ => {}
        }
    }
    let retransmissions: u64 = rx_count.values().map(|c| c.saturating_sub(1)).sum();
    r.count("C14.messages_handed_over", handed.len() as u64);
    r.count("C14.retransmissions_received", retransmissions);
    r.count("C14.handles_resolved", resolved.len() as u64);
    r.count("C14.handles_dropped", dropped.len() as u64);
    r.count("C14.connections_established", conn_established.len() as u64);
    // (a) at least once
    let kept: Vec<(u32, u64)> = handed.iter().filter(|(id, _)| !dropped.contains_key(id)).cloned().collect();
    for (id, _) in &kept {
        r.count("C14.kept_messages_checked", 1);
        if !first_rx.contains_key(id) {
            r.violate("C14", "kept-message-never-delivered", format!("message {} (handle kept) was never received by the peer, 300 virtual s after the last fault", id), vec![sc.label.clone()]);
        }
        if ack_delivered.contains_key(id) && !resolved.contains_key(id) {
            r.violate("C14", "acknowledged-message-handle-unresolved", format!("the peer's acknowledgement of message {} reached the sender but its handle never resolved", id), vec![sc.label.clone()]);
        }
    }
    // (b) first receipts of kept messages in hand-over order
    let mut order: Vec<(u64, u32)> = kept.iter().filter_map(|(id, _)| first_rx.get(id).map(|s| (*s, *id))).collect();
    order.sort();
    let got: Vec<u32> = order.iter().map(|x| x.1).collect();
    let want: Vec<u32> = kept.iter().map(|x| x.0).filter(|id| first_rx.contains_key(id)).collect();
    if got != want {
        r.violate("C14", "first-deliveries-out-of-order", format!("hand-over order {:?}, order of first receipts {:?}", want, got), vec![sc.label.clone()]);
    }
    // (c) a handle resolves only with the reply to that very message, after the reply was written
    for (id, (seq, value)) in &resolved {
        r.count("C14.resolutions_checked", 1);
        let expect = format!("ack:{:08}", id).into_bytes();
        if *value != expect {
            r.violate("C14", "handle-resolved-with-wrong-reply", format!("handle of message {} resolved with {:?}", id, String::from_utf8_lossy(value)), vec![sc.label.clone()]);
        }
        match ack_written.get(id) {
            Some(w) if w < seq => {}
            _ => r.violate("C14", "handle-resolved-before-reply", format!("handle of message {} resolved before the peer wrote its reply", id), vec![sc.label.clone()]),
        }
    }
    // (d) a message whose handle was dropped while no connection was open is never transmitted on
    // a connection established afterwards
    for (id, dseq) in &dropped {
        let open_then = open_at.iter().filter(|(s, _)| s < dseq).last().map(|x| x.1).unwrap_or(0);
        if open_then == 0 {
            r.count("C14.drops_while_disconnected_checked", 1);
            for (seq, mid, conn) in &tx_on_conn {
                if mid == id && conn_established.get(conn).map_or(false, |c| c > dseq) {
                    r.violate("C14", "dropped-message-retransmitted", format!("message {} was transmitted (log seq {}) on a connection established after its handle had been dropped while disconnected", id, seq), vec![sc.label.clone()]);
                }
            }
        }
    }
    if retransmissions > 0 {
        r.sit("C14:retransmission_observed");
    }
    facts.push(format!("handed {:?}; first receipts {:?}; retransmissions {}; resolved {}; dropped {:?}; connections {}", handed.iter().map(|x| x.0).collect::<Vec<_>>(), got, retransmissions, resolved.len(), dropped.keys().collect::<Vec<_>>(), conn_established.len()));
    facts
}

fn base_scenarios() -> Vec<Scenario> {
    let mut v = Vec::new();
    for m in [1u32, 2, 3, 5, 8] {
        for spaced in [false, true] {
            let steps = (0..m).map(|i| Step::Send { at_ms: if spaced { i as u64 * 40 } else { 0 }, id: i + 1, len: 20 + (i as usize * 37) % 300 }).collect();
            v.push(Scenario { steps, faults: vec![], reply_delay_ms: 0, silent: vec![], chaos: 0.0, chaos_until_ms: 0, label: format!("base m={} spaced={}", m, spaced) });
        }
    }
    v
}

/// Every single fault point of every base scenario.
pub fn enumeration() -> Vec<Scenario> {
    let mut out = Vec::new();
    for b in base_scenarios() {
        let m = b.steps.len() as u64;
        out.push(b.clone());
        for j in 1..=5u64 {
            let mut s = b.clone();
            s.faults = vec![Fault::Refuse((1..=j).collect())];
            s.label = format!("{} | first {} connects refused", b.label, j);
            out.push(s);
        }
        for to_server in [true, false] {
            for idx in 0..m {
                for mode in [CutMode::Before, CutMode::Inside, CutMode::After] {
                    let mut s = b.clone();
                    s.faults = vec![Fault::Cut { conn: 1, to_server, idx, mode: mode.clone() }];
                    s.label = format!("{} | cut {:?} frame {} {}", b.label, mode, idx, if to_server { "to peer" } else { "from peer" });
                    out.push(s);
                }
            }
        }
        for at in [0u64, 3, 10, 45, 200] {
            let mut s = b.clone();
            s.faults = vec![Fault::Restart { at_ms: at, down_ms: 700 }];
            s.label = format!("{} | peer restarts at {} ms", b.label, at);
            out.push(s);
        }
        // handle dropped while the peer is down, then the peer returns
        let mut s = b.clone();
        s.faults = vec![Fault::Refuse((1..=3).collect())];
        s.steps.push(Step::Drop { at_ms: 300, id: 1 });
        s.label = format!("{} | first 3 connects refused, handle 1 dropped while down", b.label);
        out.push(s);
        // a peer that never acknowledges message 1
        let mut s = b.clone();
        s.silent = vec![1];
        s.label = format!("{} | message 1 never acknowledged", b.label);
        out.push(s);
    }
    out
}

fn random_scenario(rng: &mut StdRng) -> Scenario {
    let m = rng.gen_range(1, 13);
    let mut steps = Vec::new();
    let mut t = 0u64;
    for i in 0..m {
        t += [0u64, 0, 1, 30, 250, 2000][rng.gen_range(0, 6)];
        steps.push(Step::Send { at_ms: t, id: i + 1, len: rng.gen_range(13, 2000) });
        if rng.gen_bool(0.2) {
            steps.push(Step::Drop { at_ms: t + rng.gen_range(0, 3000), id: i + 1 });
        }
    }
    let mut faults = Vec::new();
    if rng.gen_bool(0.5) {
        let k = rng.gen_range(1, 7);
        faults.push(Fault::Refuse((1..=k).collect()));
    }
    for _ in 0..rng.gen_range(0, 4) {
        faults.push(Fault::Cut { conn: rng.gen_range(1, 4), to_server: rng.gen_bool(0.5), idx: rng.gen_range(0, 6), mode: [CutMode::Before, CutMode::Inside, CutMode::After][rng.gen_range(0, 3)].clone() });
    }
    if rng.gen_bool(0.4) {
        faults.push(Fault::Restart { at_ms: rng.gen_range(0, t + 500), down_ms: rng.gen_range(10, 5000) });
    }
    let chaos = if rng.gen_bool(0.5) { [0.05, 0.15, 0.3][rng.gen_range(0, 3)] } else { 0.0 };
    let silent = if rng.gen_bool(0.2) { vec![rng.gen_range(1, m + 1)] } else { vec![] };
    Scenario { steps, faults, reply_delay_ms: [0u64, 0, 3, 50][rng.gen_range(0, 4)], silent, chaos, chaos_until_ms: t + rng.gen_range(100, 20_000), label: "random".into() }
}

pub fn run(class: &str, seed: u64, p: &Params) -> RunResult {
    let t0 = std::time::Instant::now();
    let mut report = Report::default();
    let mut classes: BTreeSet<String> = BTreeSet::new();
    let mut samples = Vec::new();
    let mut cases = 0u64;
    let scenarios: Vec<Scenario> = match class {
        "enum" => {
            // shard k of `shards`
            let all = enumeration();
            let shards = p.get_u64("shards").unwrap_or(1) as usize;
            let k = p.get_u64("shard").unwrap_or(0) as usize;
            report.count("C14.fault_points_total", all.len() as u64 / shards.max(1) as u64 + if k < all.len() % shards.max(1) { 1 } else { 0 });
            all.into_iter().enumerate().filter(|(i, _)| i % shards == k).map(|(_, s)| s).collect()
        }
        _ => {
            let mut rng = StdRng::seed_from_u64(seed ^ 0xc14);
            (0..p.get_u64("scenarios").unwrap_or(30))
                .map(|_| {
                    let mut s = random_scenario(&mut rng);
                    s.label = format!("random seed={} {:?} {:?} chaos={}", seed, s.steps, s.faults, s.chaos);
                    s
                })
                .collect()
        }
    };
    for (i, sc) in scenarios.iter().enumerate() {
        let (log, hev) = execute(sc, seed.wrapping_add(i as u64));
        let before = report.violations.len();
        let facts = judge(sc, &log, &hev, &mut report);
        cases += 1;
        report.count("C14.scenarios", 1);
        if class == "enum" {
            report.count("C14.fault_points_enumerated", 1);
            classes.insert(sc.label.clone());
        } else {
            let f: Vec<String> = sc.faults.iter().map(|f| match f {
                Fault::Refuse(l) => format!("refuse{}", l.len()),
                Fault::Cut { to_server, mode, .. } => format!("cut{:?}{}", mode, to_server),
                Fault::Restart { .. } => "restart".into(),
            }).collect();
            classes.insert(format!("random/{}/chaos{}/silent{}", f.join("+"), sc.chaos, sc.silent.len()));
        }
        if samples.len() < 3 && (report.violations.len() > before || i % 17 == 3) {
            samples.push(json!({"scenario": sc.label, "observed": facts}));
        }
    }
    for (loc, msg, th) in evlog::take_panics() {
        report.violate("C15", format!("panic@{}", loc), format!("panic in thread {}: {}", th, msg), vec![]);
    }
    RunResult {
        workload: "c14".into(),
        class: class.into(),
        seed,
        params: json!({}),
        report,
        fingerprint: format!("{:016x}", seed),
        wall_ms: t0.elapsed().as_millis() as u64,
        virtual_ms: 0,
        sample: json!(samples),
        cases,
        classes: classes.into_iter().collect(),
    }
}
