// Puppet-mode scenarios: random scripts over an action alphabet and a directed catalogue
// (DESIGN.md Appendix C). Judged by the always-on monitors with honest = [R].
use crate::cluster::run_virtual;
use crate::evlog::{self, Kind};
use crate::monitors::{self, Ctx};
use crate::puppet::{pick_stakes, Puppets};
use crate::result::RunResult;
use crate::Params;
use bytes::Bytes;
use consensus::verif::ConsensusMessage;
use consensus::{Block, QC, TC};
use crypto::{Digest, Hash as _};
use rand::rngs::StdRng;
use rand::seq::SliceRandom as _;
use rand::{Rng as _, SeedableRng as _};
use serde_json::json;
use std::collections::{HashMap, HashSet};
use std::convert::TryInto;

pub struct S {
    pub p: Puppets,
    pub rng: StdRng,
    /// The block the simulated "rest of the network" builds on, and its certificate.
    pub tip: Block,
    pub tip_qc: QC,
    /// Next round to be proposed.
    pub cur: u64,
    /// Head of the highest certified consecutive-round 2-chain: only descendants get certified.
    pub lock: Digest,
    pub lock_round: u64,
    pub withheld: Vec<Block>,
    pub pending_batches: Vec<Digest>,
    pub answered_syncs: usize,
    pub answer_sync_prob: f64,
    pub actions: Vec<String>,
    pub all: Vec<Block>,
    pub sent_msgs: Vec<ConsensusMessage>,
    pub sync_retry_ms: u64,
    /// Set by scripts after which R must have committed up to the lock block (C07 catch-up).
    pub expect_catch_up: bool,
}

fn rand_digest(rng: &mut StdRng) -> Digest {
    let mut b = [0u8; 32];
    rng.fill(&mut b);
    b[0] |= 1;
    Digest(b)
}

impl S {
    pub fn act(&mut self, s: impl Into<String>) {
        let s = s.into();
        evlog::note(format!("action {}", s));
        if self.actions.len() < 400 {
            self.actions.push(s);
        }
    }

    pub fn descends_from_lock(&self, b: &Block) -> bool {
        self.p.is_ancestor_or_self(&self.lock, &b.digest())
    }

    /// Certify `b` with a random puppet quorum if that keeps all certified consecutive 2-chains on
    /// one chain (the premise under which C02 / C05 can be judged with more than f puppets).
    pub fn certify(&mut self, b: &Block) -> Option<QC> {
        if !self.descends_from_lock(b) {
            return None;
        }
        let signers = self.p.random_quorum(&mut self.rng);
        let qc = self.p.mk_qc(&b.digest(), b.round, &signers);
        if let Some(parent) = self.p.blocks.get(&b.qc.hash).cloned() {
            if parent.round + 1 == b.round && parent.round > self.lock_round {
                self.lock = parent.digest();
                self.lock_round = parent.round;
            }
        }
        Some(qc)
    }

    pub fn tc_for(&mut self, round: u64, max_hq: u64) -> TC {
        let signers = self.p.random_quorum(&mut self.rng);
        let entries: Vec<(usize, u64)> = signers
            .iter()
            .enumerate()
            .map(|(k, i)| (*i, if k == 0 || max_hq == 0 { max_hq } else { self.rng.gen_range(0, max_hq + 1) }))
            .collect();
        self.p.mk_tc(round, &entries)
    }

    pub async fn send(&mut self, from: usize, m: ConsensusMessage) {
        self.p.send(from, &m).await;
        if self.sent_msgs.len() < 300 {
            self.sent_msgs.push(m);
        }
    }

    pub async fn deliver(&mut self, b: &Block) {
        self.p.deliver_block(b).await;
        if self.sent_msgs.len() < 300 {
            self.sent_msgs.push(ConsensusMessage::Propose(b.clone()));
        }
    }

    /// Answer (or ignore) R's outstanding sync requests.
    pub async fn serve_syncs(&mut self) {
        while self.answered_syncs < self.p.r_syncs.len() {
            let (j, d) = self.p.r_syncs[self.answered_syncs].clone();
            self.answered_syncs += 1;
            if self.rng.gen_bool(self.answer_sync_prob) {
                if let Some(b) = self.p.blocks.get(&d).cloned() {
                    self.act(format!("answer sync for r{} from puppet {}", b.round, j));
                    self.p.send(j, &ConsensusMessage::Propose(b)).await;
                }
            } else {
                self.act(format!("ignore sync request to puppet {}", j));
            }
        }
    }

    pub async fn settle(&mut self) {
        self.p.settle().await;
        self.serve_syncs().await;
        self.p.settle().await;
    }

    /// One regular step of the simulated network: a block for round `cur` on top of `tip`.
    /// Returns the block if one came into existence.
    pub async fn advance(&mut self, payload: Vec<Digest>, deliver: bool) -> Option<Block> {
        let round = self.cur;
        let leader = self.p.leader(round);
        let need_tc = self.tip.round + 1 != round;
        let b: Block;
        if leader == self.p.r {
            // R must propose itself: hand it what it needs.
            let before = self.p.r_blocks.len();
            if !need_tc && self.tip.round > 0 {
                let mut signers = self.p.random_quorum(&mut self.rng);
                signers.shuffle(&mut self.rng);
                self.act(format!("votes for tip r{} to R (leader of r{})", self.tip.round, round));
                let (h, r0) = (self.tip.digest(), self.tip.round);
                self.p.certified.insert(h.clone());
                if self.rng.gen_bool(0.35) {
                    // C04 probe: by-construction-invalid votes for exactly this (block, round), fresh
                    // and addressed to the collecting leader, before the valid ones arrive.
                    let donor = signers[0];
                    let good = self.p.mk_vote(donor, &h, r0);
                    let mut forged = Vec::new();
                    // (a) in the name of the receiver itself, signature of somebody else
                    let mut v = good.clone();
                    v.author = self.p.name(self.p.r);
                    forged.push(("vote in the receiver's own name with a transplanted signature", v));
                    // (b) in the name of another member, signature of the donor
                    let others: Vec<usize> = self.p.puppets().into_iter().filter(|x| *x != donor).collect();
                    if let Some(o) = others.first() {
                        let mut v = good.clone();
                        v.author = self.p.name(*o);
                        forged.push(("vote with a signature of another member", v));
                    }
                    // (c) signature made for the next round
                    let mut v = good.clone();
                    v.signature = self.p.mk_vote(donor, &h, r0 + 1).signature;
                    forged.push(("vote with a signature made for another round", v));
                    // (d) one bit of the signature flipped
                    let mut v = good.clone();
                    let mut bytes = bincode::serialize(&v.signature).unwrap();
                    let bit = self.rng.gen_range(0, 512);
                    bytes[bit / 8] ^= 1 << (bit % 8);
                    v.signature = bincode::deserialize(&bytes).unwrap();
                    forged.push(("vote with one signature bit flipped", v));
                    let k = self.rng.gen_range(1, forged.len() + 1);
                    for (what, v) in forged.into_iter().take(k) {
                        self.act(format!("invalid variant (fresh): {}", what));
                        let from = *self.p.puppets().choose(&mut self.rng).unwrap();
                        self.p.send(from, &ConsensusMessage::Vote(v)).await;
                    }
                    self.p.settle().await;
                }
                for i in signers {
                    let v = self.p.mk_vote(i, &h, r0);
                    self.send(i, ConsensusMessage::Vote(v)).await;
                    if self.rng.gen_bool(0.3) {
                        self.p.settle().await;
                    }
                }
            } else if round > 1 {
                let hq = self.tip_qc.clone();
                let mut signers = self.p.random_quorum(&mut self.rng);
                signers.shuffle(&mut self.rng);
                self.act(format!("timeouts r{} to R (leader of r{})", round - 1, round));
                if self.rng.gen_bool(0.35) {
                    let donor = signers[0];
                    let good = self.p.mk_timeout(donor, round - 1, hq.clone());
                    let mut t = good.clone();
                    t.author = self.p.name(self.p.r);
                    self.act("invalid variant (fresh): timeout in the receiver's own name with a transplanted signature");
                    self.p.send(donor, &ConsensusMessage::Timeout(t)).await;
                    let mut t = good.clone();
                    t.signature = self.p.mk_timeout(donor, round, hq.clone()).signature;
                    self.act("invalid variant (fresh): timeout with a signature made for another round");
                    self.p.send(donor, &ConsensusMessage::Timeout(t)).await;
                    // correctly self-signed timeouts whose embedded high-QC is forged, for every QC round
                    // between the certificate the node holds and the round it is in
                    for fr in (hq.round + 1)..round {
                        let forged = QC { hash: rand_digest(&mut self.rng), round: fr, votes: hq.votes.clone() };
                        let t = self.p.mk_timeout(donor, round - 1, forged);
                        self.act(format!("invalid variant (fresh): timeout carrying a forged QC of round {}", fr));
                        self.p.send(donor, &ConsensusMessage::Timeout(t)).await;
                    }
                    // a non-member's validly self-signed timeout for exactly this round, before the quorum
                    {
                        let mut r2 = StdRng::seed_from_u64(self.rng.gen());
                        let outsider = crypto::generate_keypair(&mut r2);
                        let mut t = good.clone();
                        t.author = outsider.0;
                        t.signature = crypto::Signature::new(&t.digest(), &outsider.1);
                        self.act("invalid variant (fresh): timeout of a non-member, validly self-signed");
                        self.p.send(donor, &ConsensusMessage::Timeout(t)).await;
                    }
                    // spoofed in the receiver's own name, carrying a forged QC far ahead
                    {
                        let ahead = round + self.rng.gen_range(1, 6);
                        let forged = QC { hash: rand_digest(&mut self.rng), round: ahead, votes: hq.votes.clone() };
                        let mut t = self.p.mk_timeout(donor, ahead + 1, forged);
                        t.author = self.p.name(self.p.r);
                        self.act(format!("invalid variant (fresh): timeout in the receiver's own name carrying a forged QC of round {}", ahead));
                        self.p.send(donor, &ConsensusMessage::Timeout(t)).await;
                    }
                    self.p.settle().await;
                }
                // Sometimes the first authority times out twice in that round: first with an older QC, then
                // (having learned the newest one) again. Its stake counts once.
                let twice = self.rng.gen_bool(0.3) && hq.round > 0 && self.tip.qc.round < hq.round;
                for (n, i) in signers.into_iter().enumerate() {
                    if n == 0 && twice {
                        self.act(format!("authority {} times out twice in r{} (QC r{}, then QC r{})", i, round - 1, self.tip.qc.round, hq.round));
                        let t0 = self.p.mk_timeout(i, round - 1, self.tip.qc.clone());
                        self.send(i, ConsensusMessage::Timeout(t0)).await;
                        self.p.settle().await;
                    }
                    let t = self.p.mk_timeout(i, round - 1, hq.clone());
                    self.send(i, ConsensusMessage::Timeout(t)).await;
                    if self.rng.gen_bool(0.3) {
                        self.p.settle().await;
                    }
                }
            }
            self.settle().await;
            let _ = before;
            let newb = self.p.r_blocks.iter().find(|x| x.round == round).cloned();
            match newb {
                Some(x) => b = x,
                None => {
                    // R did not propose (it may be ahead, or have timed out): its round is lost.
                    self.act(format!("R did not propose for r{}", round));
                    self.cur += 1;
                    return None;
                }
            }
        } else {
            let tc = if need_tc { Some(self.tc_for(round - 1, self.tip_qc.round)) } else { None };
            b = self.p.mk_block(leader, round, self.tip_qc.clone(), tc, payload);
            if deliver && self.rng.gen_bool(0.15) {
                if let Some((what, bad)) = corrupt(&mut self.rng, &self.p, ConsensusMessage::Propose(b.clone())) {
                    self.act(format!("invalid variant (fresh): {}", what));
                    let from = *self.p.puppets().choose(&mut self.rng).unwrap();
                    self.p.send(from, &bad).await;
                    self.p.settle().await;
                }
            }
            if deliver {
                self.act(format!("propose r{} on r{}{}", round, self.tip.round, if need_tc { " with TC" } else { "" }));
                self.deliver(&b).await;
                self.settle().await;
            } else {
                self.act(format!("withhold r{} on r{}", round, self.tip.round));
                self.withheld.push(b.clone());
            }
        }
        self.all.push(b.clone());
        self.cur += 1;
        if let Some(qc) = self.certify(&b) {
            self.tip = b.clone();
            self.tip_qc = qc;
        }
        Some(b)
    }
}

pub struct PuppetOutcome {
    pub log: Vec<evlog::Ev>,
    pub topo: std::sync::Arc<crate::world::Topo>,
    pub r: usize,
    pub store_of: HashMap<String, usize>,
    pub actions: Vec<String>,
    pub extra: serde_json::Value,
}

pub async fn start(seed: u64, p: &Params, rng: &mut StdRng) -> S {
    let n = p.get_u64("n").map(|x| x as usize).unwrap_or_else(|| rng.gen_range(4, 8));
    let r = p.get_u64("r").map(|x| x as usize).unwrap_or_else(|| rng.gen_range(0, n));
    let stakes = if p.get_u64("equal_stakes").unwrap_or(0) == 1 { vec![1; n] } else { pick_stakes(rng, n, r) };
    let timeout_ms = p.get_u64("timeout_ms").unwrap_or(1_000);
    let sync_retry_ms = p.get_u64("sync_retry_ms").unwrap_or(2_000);
    let full_node = p.get_u64("full_node").unwrap_or(0) == 1;
    let pup = Puppets::start_mode(n, stakes, r, seed, timeout_ms, sync_retry_ms, full_node).await;
    S {
        p: pup,
        rng: StdRng::seed_from_u64(seed ^ 0xabcdef),
        tip: Block::genesis(),
        tip_qc: QC::genesis(),
        cur: 1,
        lock: Digest::default(),
        lock_round: 0,
        withheld: Vec::new(),
        pending_batches: Vec::new(),
        answered_syncs: 0,
        answer_sync_prob: 0.8,
        actions: Vec::new(),
        all: Vec::new(),
        sent_msgs: Vec::new(),
        sync_retry_ms,
        expect_catch_up: false,
    }
}

// -------------------------------------------------------------------------------------------------
// Random scripts.
async fn random_script(s: &mut S, steps: usize) {
    for _ in 0..steps {
        let x: u32 = s.rng.gen_range(0, 100);
        match x {
            0..=44 => {
                // regular progress; sometimes with a payload that is (or is not yet) available
                let mut payload = Vec::new();
                if s.rng.gen_bool(0.25) {
                    let k = s.rng.gen_range(1, 4);
                    for _ in 0..k {
                        // sometimes a digest that an earlier, still parked block is also waiting for
                        let reuse = !s.pending_batches.is_empty() && s.rng.gen_bool(0.3);
                        let d = if reuse { s.pending_batches[s.rng.gen_range(0, s.pending_batches.len())].clone() } else { rand_digest(&mut s.rng) };
                        if reuse {
                            payload.push(d);
                            continue;
                        }
                        if s.rng.gen_bool(0.6) {
                            s.p.store_batch(&d).await;
                        } else {
                            s.pending_batches.push(d.clone());
                        }
                        payload.push(d);
                    }
                }
                let deliver = !s.rng.gen_bool(0.08);
                s.advance(payload, deliver).await;
            }
            45..=56 => {
                // view change: skip 1..3 rounds; sometimes let R see the timeouts / the TC message
                let k = s.rng.gen_range(1, 4);
                for _ in 0..k {
                    let round = s.cur;
                    s.act(format!("skip round {}", round));
                    let mode = s.rng.gen_range(0, 4);
                    if mode == 1 {
                        let hq = s.tip_qc.clone();
                        let mut signers = s.p.random_quorum(&mut s.rng);
                        signers.shuffle(&mut s.rng);
                        for i in signers {
                            let t = s.p.mk_timeout(i, round, hq.clone());
                            s.send(i, ConsensusMessage::Timeout(t)).await;
                            if s.rng.gen_bool(0.2) {
                                let t = s.p.mk_timeout(i, round, hq.clone());
                                s.send(i, ConsensusMessage::Timeout(t)).await;
                            }
                        }
                    } else if mode == 2 {
                        let tc = s.tc_for(round, s.tip_qc.round);
                        let from = *s.p.puppets().choose(&mut s.rng).unwrap();
                        s.send(from, ConsensusMessage::TC(tc)).await;
                    }
                    s.cur += 1;
                    s.settle().await;
                }
            }
            57..=63 => {
                s.act("let R's timer fire");
                s.p.fire_timer().await;
                s.serve_syncs().await;
            }
            64..=69 => {
                // equivocation: a second block for a recent puppet-led round
                if let Some(orig) = s.all.iter().rev().take(4).filter(|b| s.p.topo.index_of(&b.author) != Some(s.p.r)).cloned().collect::<Vec<_>>().choose(&mut s.rng).cloned() {
                    let a = s.p.topo.index_of(&orig.author).unwrap();
                    let b2 = s.p.mk_block(a, orig.round, orig.qc.clone(), orig.tc.clone(), vec![]);
                    if b2.digest() != orig.digest() || true {
                        let shared: Option<Digest> = orig.payload.iter().find(|d| s.pending_batches.contains(d)).cloned();
                        let d = match shared {
                            Some(d) if s.rng.gen_bool(0.7) => d,
                            _ => {
                                let d = rand_digest(&mut s.rng);
                                s.p.store_batch(&d).await;
                                d
                            }
                        };
                        let b2 = s.p.mk_block(a, orig.round, orig.qc.clone(), orig.tc.clone(), vec![d]);
                        s.act(format!("equivocating proposal for r{}", orig.round));
                        s.deliver(&b2).await;
                        s.settle().await;
                    }
                }
            }
            70..=77 => {
                // validly signed but unsafe / odd proposals
                let round = s.cur;
                let leader = s.p.leader(round);
                if leader != s.p.r {
                    let kind = s.rng.gen_range(0, 7);
                    let hi = s.tip_qc.clone();
                    let b = match kind {
                        6 => {
                            // "inverted" proposal, two steps. (i) A block X of a future round from its
                            // rightful leader on the tip, with a gap and NO TC: the node stores it but must
                            // not vote for it. (ii) The puppets certify X all the same, and the leader of a
                            // round r2 <= X.round proposes a block of round r2 that carries QC(X) and a valid
                            // TC(r2-1): a block whose QC is not of a lower round than the block itself.
                            let mut far = round + s.rng.gen_range(2, 5);
                            while s.p.leader(far) == s.p.r {
                                far += 1;
                            }
                            let x = s.p.mk_block(s.p.leader(far), far, hi.clone(), None, vec![]);
                            s.act(format!("proposal r{} with gap and no TC (certified afterwards)", far));
                            s.deliver(&x).await;
                            s.settle().await;
                            let cands: Vec<u64> = (round.max(2)..=far).filter(|r| s.p.leader(*r) != s.p.r).collect();
                            match (s.certify(&x), cands.choose(&mut s.rng).cloned()) {
                                (Some(qcx), Some(r2)) => {
                                    let max_hq = s.rng.gen_range(0, hi.round + 1);
                                    let tc = s.tc_for(r2 - 1, max_hq);
                                    let b = s.p.mk_block(s.p.leader(r2), r2, qcx.clone(), Some(tc), vec![]);
                                    s.act(format!("proposal r{} carrying the QC of r{} (not a lower round) and TC r{}", r2, far, r2 - 1));
                                    // X is the certified tip from now on.
                                    s.all.push(x.clone());
                                    s.tip = x;
                                    s.tip_qc = qcx;
                                    s.cur = far + 1;
                                    b
                                }
                                _ => x,
                            }
                        }
                        0 => {
                            // gap and no TC
                            let far = round + s.rng.gen_range(1, 3) * s.p.topo.n as u64;
                            s.act(format!("proposal r{} with gap and no TC", far));
                            s.p.mk_block(leader, far, hi, None, vec![])
                        }
                        1 => {
                            // TC of the wrong round
                            let far = round + s.p.topo.n as u64;
                            let tc = s.tc_for(round.saturating_sub(1).max(1), hi.round);
                            s.act(format!("proposal r{} with TC of wrong round", far));
                            s.p.mk_block(leader, far, hi, Some(tc), vec![])
                        }
                        2 => {
                            // TC reporting a higher QC than the block's
                            let far = round + s.p.topo.n as u64;
                            let extra = s.rng.gen_range(0, 3);
                            let tc = s.tc_for(far - 1, hi.round + 1 + extra);
                            s.act(format!("proposal r{} whose TC reports a higher QC", far));
                            s.p.mk_block(leader, far, hi, Some(tc), vec![])
                        }
                        3 => {
                            // qc.round >= round: a block of an old round carrying the newest QC
                            let old = (hi.round / s.p.topo.n as u64) * s.p.topo.n as u64 + leader as u64;
                            let old = if old > hi.round { old.saturating_sub(s.p.topo.n as u64) } else { old };
                            s.act(format!("proposal r{} with qc r{} >= round", old, hi.round));
                            s.p.mk_block(leader, old, hi, None, vec![])
                        }
                        4 => {
                            // far future round from its rightful leader, with matching TC
                            let nn = s.p.topo.n as u64;
                            let base = (u64::MAX - 1) - ((u64::MAX - 1) % nn);
                            let far = if base.checked_add(leader as u64).map_or(false, |x| x <= u64::MAX - 1) { base + leader as u64 } else { base - nn + leader as u64 };
                            s.act(format!("proposal for far-future round {} without TC", far));
                            s.p.mk_block(leader, far, hi, None, vec![])
                        }
                        _ => {
                            // proposal by a puppet that is not the leader
                            let cands: Vec<usize> = s.p.puppets().into_iter().filter(|x| *x != leader).collect();
                            let other = cands.choose(&mut s.rng).unwrap();
                            // sometimes with a batch the node does not hold yet (it arrives later):
                            // the parked block must not come back as votable
                            let mut pl = vec![];
                            if s.rng.gen_bool(0.5) {
                                let d = rand_digest(&mut s.rng);
                                s.pending_batches.push(d.clone());
                                pl.push(d);
                            }
                            // sometimes carrying a stale TC chosen so that the author is the leader of the
                            // round right after that TC (but not of the block's round)
                            let mut tc = None;
                            if s.rng.gen_bool(0.5) && round >= 3 {
                                let stale: Vec<u64> = (1..round - 1).filter(|t| s.p.leader(t + 1) == *other).collect();
                                if let Some(t0) = stale.choose(&mut s.rng).cloned() {
                                    tc = Some(s.tc_for(t0, 0));
                                }
                            }
                            s.act(format!("proposal r{} by non-leader {} (payload {}, stale TC {:?})", round, other, pl.len(), tc.as_ref().map(|t| t.round)));
                            s.p.mk_block(*other, round, hi, tc, pl)
                        }
                    };
                    s.deliver(&b).await;
                    s.settle().await;
                }
            }
            78..=83 => {
                // release withheld blocks / missing batches
                if !s.withheld.is_empty() && s.rng.gen_bool(0.7) {
                    let k = s.rng.gen_range(0, s.withheld.len());
                    let b = s.withheld.remove(k);
                    s.act(format!("late delivery of withheld r{}", b.round));
                    s.deliver(&b).await;
                } else if !s.pending_batches.is_empty() {
                    let k = s.rng.gen_range(0, s.pending_batches.len());
                    let d = s.pending_batches.remove(k);
                    s.act("batch arrives");
                    s.p.store_batch(&d).await;
                }
                s.settle().await;
            }
            84..=91 => {
                // invalid variants of something sent before (C04): must have no effect
                if let Some(m) = s.sent_msgs.choose(&mut s.rng).map(clone_msg) {
                    let bad = corrupt(&mut s.rng, &s.p, m);
                    if let Some((what, bad)) = bad {
                        s.act(format!("invalid variant: {}", what));
                        let from = *s.p.puppets().choose(&mut s.rng).unwrap();
                        s.p.send(from, &bad).await;
                        s.settle().await;
                    }
                }
            }
            92..=93 => {
                // sync requests from a puppet: for a digest nobody knows, then for a block R stored
                let j = *s.p.puppets().choose(&mut s.rng).unwrap();
                if s.rng.gen_bool(0.5) {
                    s.act("sync request for an unknown digest");
                    let d = rand_digest(&mut s.rng);
                    s.p.send(j, &ConsensusMessage::SyncRequest(d, s.p.name(j))).await;
                    s.settle().await;
                }
                let known = s.all.iter().rev().find(|b| s.p.r_votes.iter().any(|v| v.hash == b.digest())).cloned();
                if let Some(b) = known {
                    s.act(format!("sync request for stored block r{}", b.round));
                    let mark = evlog::len();
                    s.p.send(j, &ConsensusMessage::SyncRequest(b.digest(), s.p.name(j))).await;
                    s.settle().await;
                    let answered = evlog::tail(mark).iter().any(|e| match &e.kind {
                        Kind::FrameIn { frame } => frame.route.src == s.p.r && frame.route.dst == j && matches!(frame.cons(), Some(crate::evlog::CMsg::Propose(x)) if x.digest() == b.digest()),
                        _ => false,
                    });
                    evlog::note(if answered { "C07:sync_probe_answered".to_string() } else { format!("C07:sync_probe_unanswered r{}", b.round) });
                }
            }
            94..=96 => {
                // replay
                if let Some(m) = s.sent_msgs.choose(&mut s.rng).map(clone_msg) {
                    s.act("replay of an earlier message");
                    let from = *s.p.puppets().choose(&mut s.rng).unwrap();
                    s.p.send(from, &m).await;
                    s.settle().await;
                }
            }
            _ => {
                // long silence: sync retry timers run
                s.act("long silence");
                let ms = s.rng.gen_range(1, 9) * 1000;
                s.p.wait_ms(ms).await;
                s.answer_sync_prob = 1.0;
                s.settle().await;
                s.answer_sync_prob = 0.8;
            }
        }
    }
    // Wind down: deliver everything withheld, all batches, answer all syncs, a few clean rounds.
    s.answer_sync_prob = 1.0;
    let w: Vec<Block> = s.withheld.drain(..).collect();
    for b in w {
        s.deliver(&b).await;
    }
    let pb: Vec<Digest> = s.pending_batches.drain(..).collect();
    for d in pb {
        s.p.store_batch(&d).await;
    }
    s.settle().await;
    for _ in 0..4 {
        s.advance(vec![], true).await;
    }
    s.settle().await;
}

pub fn clone_msg(m: &ConsensusMessage) -> ConsensusMessage {
    bincode::deserialize(&bincode::serialize(m).unwrap()).unwrap()
}

/// Produce a by-construction-invalid variant of a valid message.
pub fn corrupt(rng: &mut StdRng, p: &Puppets, m: ConsensusMessage) -> Option<(String, ConsensusMessage)> {
    let flip_sig = |rng: &mut StdRng, s: &crypto::Signature| -> crypto::Signature {
        let mut bytes = bincode::serialize(s).unwrap();
        let bit = rng.gen_range(0, 512);
        bytes[bit / 8] ^= 1 << (bit % 8);
        bincode::deserialize(&bytes).unwrap()
    };
    let outsider = {
        let mut r2 = StdRng::seed_from_u64(rng.gen());
        crypto::generate_keypair(&mut r2)
    };
    Some(match m {
        ConsensusMessage::Propose(mut b) => match rng.gen_range(0, 8) {
            0 => {
                b.signature = flip_sig(rng, &b.signature);
                ("block: signature bit flipped".into(), ConsensusMessage::Propose(b))
            }
            1 => {
                b.payload.push(rand_digest(rng));
                ("block: payload altered after signing".into(), ConsensusMessage::Propose(b))
            }
            2 => {
                if b.qc.votes.is_empty() {
                    return None;
                }
                b.qc.votes.pop();
                // re-sign so that only the certificate is at fault
                let a = p.topo.index_of(&b.author)?;
                if a == p.r {
                    return None;
                }
                b.signature = p.topo.sign(a, &b.digest());
                ("block: embedded QC below quorum".into(), ConsensusMessage::Propose(b))
            }
            3 => {
                if b.qc.votes.len() < 2 {
                    return None;
                }
                let first = b.qc.votes[0].clone();
                let k = b.qc.votes.len() - 1;
                b.qc.votes[k] = first;
                let a = p.topo.index_of(&b.author)?;
                if a == p.r {
                    return None;
                }
                b.signature = p.topo.sign(a, &b.digest());
                ("block: embedded QC repeats a signer".into(), ConsensusMessage::Propose(b))
            }
            4 => {
                if b.qc.votes.is_empty() {
                    return None;
                }
                b.qc.round = b.qc.round.wrapping_add(1);
                let a = p.topo.index_of(&b.author)?;
                if a == p.r {
                    return None;
                }
                b.signature = p.topo.sign(a, &b.digest());
                ("block: embedded QC round altered".into(), ConsensusMessage::Propose(b))
            }
            6 => {
                // a "QC" of round 0 that is not the genesis QC: points at an arbitrary stored block
                let a = p.topo.index_of(&b.author)?;
                if a == p.r {
                    return None;
                }
                let target = p.blocks.values().filter(|x| x.round > 0 && x.round < b.round).map(|x| x.digest()).next()?;
                b.qc = QC { hash: target, round: 0, votes: vec![] };
                b.tc = None;
                b.signature = p.topo.sign(a, &b.digest());
                ("block: round-0 QC with a non-genesis hash".into(), ConsensusMessage::Propose(b))
            }
            5 => {
                // The digest does not cover the TC: anybody relaying a block can splice a forged TC
                // onto it; its signature stays valid, the block must still be rejected.
                let signers: Vec<usize> = p.puppets();
                let far = b.round.saturating_add(rng.gen_range(1, 50));
                let mut tc = p.mk_tc(far, &signers.iter().map(|i| (*i, 0)).collect::<Vec<_>>());
                match rng.gen_range(0, 3) {
                    0 => {
                        // genuine signatures for another round
                        tc.round = tc.round.wrapping_add(1);
                    }
                    1 => {
                        for v in tc.votes.iter_mut() {
                            v.1 = crypto::Signature::default();
                        }
                    }
                    _ => {
                        tc.votes.truncate(1);
                    }
                }
                b.tc = Some(tc);
                ("block: forged TC spliced onto a validly signed block".into(), ConsensusMessage::Propose(b))
            }
            _ => {
                b.author = outsider.0;
                b.signature = crypto::Signature::new(&b.digest(), &outsider.1);
                ("block: signed by a non-member".into(), ConsensusMessage::Propose(b))
            }
        },
        ConsensusMessage::Vote(mut v) => match rng.gen_range(0, 3) {
            0 => {
                v.signature = flip_sig(rng, &v.signature);
                ("vote: signature bit flipped".into(), ConsensusMessage::Vote(v))
            }
            1 => {
                v.round = v.round.wrapping_add(1);
                ("vote: round altered after signing".into(), ConsensusMessage::Vote(v))
            }
            _ => {
                v.author = outsider.0;
                v.signature = crypto::Signature::new(&v.digest(), &outsider.1);
                ("vote: by a non-member".into(), ConsensusMessage::Vote(v))
            }
        },
        ConsensusMessage::Timeout(mut t) => match rng.gen_range(0, 4) {
            0 => {
                t.signature = flip_sig(rng, &t.signature);
                ("timeout: signature bit flipped".into(), ConsensusMessage::Timeout(t))
            }
            3 => {
                t.author = outsider.0;
                t.signature = crypto::Signature::new(&t.digest(), &outsider.1);
                ("timeout: by a non-member (validly self-signed)".into(), ConsensusMessage::Timeout(t))
            }
            1 => {
                t.round = t.round.wrapping_add(1);
                ("timeout: round altered after signing".into(), ConsensusMessage::Timeout(t))
            }
            _ => {
                if t.high_qc.votes.is_empty() {
                    return None;
                }
                t.high_qc.votes.pop();
                ("timeout: embedded QC below quorum".into(), ConsensusMessage::Timeout(t))
            }
        },
        ConsensusMessage::TC(mut tc) => match rng.gen_range(0, 4) {
            0 => {
                if tc.votes.is_empty() {
                    return None;
                }
                tc.votes.pop();
                ("TC: below quorum".into(), ConsensusMessage::TC(tc))
            }
            3 => {
                // one member's validly signed timeouts for this round, reporting different high-QC rounds,
                // repeated until the naive sum of stakes reaches the quorum
                let who = tc.votes.first().and_then(|v| p.topo.index_of(&v.0))?;
                let st = p.topo.stakes[who] as u64;
                let q = p.topo.quorum();
                if who == p.r || st == 0 || st >= q {
                    return None;
                }
                let k = ((q + st - 1) / st).max(tc.votes.len() as u64).min(64);
                let entries: Vec<(usize, u64)> = (0..k).map(|j| (who, j)).collect();
                let forged = p.mk_tc(tc.round, &entries);
                ("TC: one member's timeouts with different high-QC rounds counted repeatedly".into(), ConsensusMessage::TC(forged))
            }
            1 => {
                if tc.votes.is_empty() {
                    return None;
                }
                tc.votes[0].2 = tc.votes[0].2.wrapping_add(1);
                ("TC: reported high-QC round altered".into(), ConsensusMessage::TC(tc))
            }
            _ => {
                tc.round = tc.round.wrapping_add(1);
                ("TC: round altered".into(), ConsensusMessage::TC(tc))
            }
        },
        ConsensusMessage::SyncRequest(..) => return None,
    })
}

// -------------------------------------------------------------------------------------------------
// Directed scripts (subset of Appendix C that random scripts reach only rarely or that provide the
// deterministic coverage floors).
async fn directed(s: &mut S, class: &str) {
    let n = s.p.topo.n as u64;
    match class {
        // D01: gap-free chain
        "d01" => {
            for _ in 0..(3 * n + 2) {
                s.advance(vec![], true).await;
            }
        }
        // D02: round 1 never produces a block
        "d02" => {
            s.cur = 2;
            for _ in 0..(2 * n + 2) {
                s.advance(vec![], true).await;
            }
        }
        // D03: 1..4 gaps before a consecutive pair -> one commit call walks several ancestors
        "d03" => {
            let gaps = s.rng.gen_range(2, 5);
            for _ in 0..gaps {
                s.advance(vec![], true).await;
                s.cur += 1;
            }
            for _ in 0..4 {
                s.advance(vec![], true).await;
            }
            for _ in 0..gaps {
                s.advance(vec![], true).await;
                s.cur += s.rng.gen_range(1, 3);
            }
            for _ in 0..4 {
                s.advance(vec![], true).await;
            }
        }
        // D04: commit b via its certified child c, then continue from b skipping c's round
        "d04" => {
            for _ in 0..3 {
                s.advance(vec![], true).await;
            }
            // b = tip; c on top of it, certified, shown to R inside d's QC
            let b = s.tip.clone();
            let bqc = s.tip_qc.clone();
            let c = s.advance(vec![], true).await;
            let d = s.advance(vec![], true).await; // carries QC(c): R commits b
            // the rest of the network never saw c: it continues from b with a TC
            s.tip = b;
            s.tip_qc = bqc;
            s.cur += 1;
            for _ in 0..5 {
                s.advance(vec![], true).await;
            }
            // late re-delivery of the orphaned branch (c is certified but abandoned, d never was certified)
            for late in [c, d].iter().flatten() {
                s.act(format!("late re-delivery of orphaned r{}", late.round));
                s.deliver(late).await;
                s.settle().await;
            }
            for _ in 0..2 {
                s.advance(vec![], true).await;
            }
        }
        // D07: children before parents, depth k; the first sync target may stay silent, in which case
        // only *retried* requests (those R sends after the silence began) are answered.
        "d07" => {
            for _ in 0..2 {
                s.advance(vec![], true).await;
            }
            let depth = s.rng.gen_range(2, 12);
            for _ in 0..depth {
                s.advance(vec![], false).await;
            }
            // 0: every request answered; 1: nobody answers from the start; 2: the first k requests are
            // answered, the request for a deeper ancestor is not (the blocks that did arrive stay parked)
            let mode = s.rng.gen_range(0, 3);
            let silent_first = mode == 1;
            let k = s.rng.gen_range(0, depth - 1);
            s.answer_sync_prob = if silent_first { 0.0 } else { 1.0 };
            s.advance(vec![], true).await;
            for i in 0..(depth + 2) {
                if mode == 2 && i >= k {
                    s.answer_sync_prob = 0.0;
                }
                s.settle().await;
            }
            if silent_first {
                evlog::note("C07:first_sync_target_silent");
            }
            if mode == 2 {
                evlog::note("C07:deeper_sync_request_unanswered");
            }
            // Retry path: the synchronizer re-requests from everybody after sync_retry_delay, checked
            // on a fixed 5 s timer. Requests that were ignored stay ignored; only new ones are served.
            let ignored_upto = s.p.r_syncs.len();
            s.p.wait_ms(s.sync_retry_ms + 11_000).await;
            s.answer_sync_prob = 1.0;
            s.answered_syncs = ignored_upto.min(s.answered_syncs.max(ignored_upto));
            for _ in 0..(2 * depth + 6) {
                s.settle().await;
            }
            let early: std::collections::HashSet<Digest> = s.p.r_syncs[..ignored_upto].iter().map(|x| x.1.clone()).collect();
            if s.p.r_syncs[ignored_upto..].iter().any(|x| early.contains(&x.1)) {
                evlog::note("C07:retry_observed");
            }
            s.expect_catch_up = true;
            s.withheld.clear();
            for _ in 0..4 {
                s.advance(vec![], true).await;
            }
        }
        // D20: the child arrives before its parent AND references a batch the node lacks; the parent then
        // arrives (sync-resumed path); the batch only later. No vote before the batch is stored.
        "d20" => {
            for _ in 0..3 {
                s.advance(vec![], true).await;
            }
            let mut guard = 0;
            while (s.p.leader(s.cur) == s.p.r || s.p.leader(s.cur + 1) == s.p.r) && guard < 8 {
                s.advance(vec![], true).await;
                guard += 1;
            }
            s.answer_sync_prob = 0.0;
            let parent = s.advance(vec![], false).await;
            let d = rand_digest(&mut s.rng);
            s.act("child with a missing batch, parent unknown");
            s.advance(vec![d.clone()], true).await;
            s.settle().await;
            if let Some(pb) = parent {
                s.act("parent arrives");
                s.deliver(&pb).await;
                s.withheld.clear();
            }
            s.settle().await;
            s.p.wait_ms(40).await;
            s.act("batch arrives");
            s.p.store_batch(&d).await;
            s.answer_sync_prob = 1.0;
            s.settle().await;
            for _ in 0..4 {
                s.advance(vec![], true).await;
            }
        }
        // D21: a correctly led but INVALID proposal (below-quorum / bit-flipped QC for the still uncertified
        // tip, or a flipped block signature) that also references a batch the node lacks; the batch arrives
        // later (payload-resumed path) and no valid version of the proposal is ever sent. The node must not
        // vote for it and must not commit through its certificate.
        "d21" => {
            for _ in 0..3 {
                s.advance(vec![], true).await;
            }
            for variant in 0..3 {
                let mut guard = 0;
                while s.p.leader(s.cur + 1) == s.p.r && guard < 4 {
                    s.advance(vec![], true).await;
                    guard += 1;
                }
                // b1 on top of b0 (consecutive rounds); its QC stays with the puppets for now.
                s.advance(vec![], true).await;
                let round = s.cur;
                let leader = s.p.leader(round);
                if leader == s.p.r || s.tip.round + 1 != round || s.tip_qc.votes.len() < 2 {
                    continue;
                }
                let d = rand_digest(&mut s.rng);
                let mut qc = s.tip_qc.clone();
                let mut flip_block_sig = false;
                match variant {
                    0 => qc.votes.truncate(1),
                    1 => {
                        let k = s.rng.gen_range(0, qc.votes.len());
                        let mut bytes = bincode::serialize(&qc.votes[k].1).unwrap();
                        let bit = s.rng.gen_range(0, 504);
                        bytes[bit / 8] ^= 1 << (bit % 8);
                        qc.votes[k].1 = bincode::deserialize(&bytes).unwrap();
                    }
                    _ => flip_block_sig = true,
                }
                let mut bad = Block { qc, tc: None, author: s.p.name(leader), round, payload: vec![d.clone()], signature: crypto::Signature::default() };
                bad.signature = s.p.topo.sign(leader, &bad.digest());
                if flip_block_sig {
                    let mut bytes = bincode::serialize(&bad.signature).unwrap();
                    let bit = s.rng.gen_range(0, 504);
                    bytes[bit / 8] ^= 1 << (bit % 8);
                    bad.signature = bincode::deserialize(&bytes).unwrap();
                }
                s.act(format!("invalid variant (fresh): round-{} proposal by its leader, {} and a batch the node lacks", round, ["QC below quorum", "QC with a flipped signature bit", "block signature bit flipped"][variant]));
                s.p.send(leader, &ConsensusMessage::Propose(bad)).await;
                s.settle().await;
                s.p.wait_ms(30).await;
                s.act("batch arrives");
                s.p.store_batch(&d).await;
                s.settle().await;
                s.p.wait_ms(30).await;
                // the genuine proposal of that round (other payload, hence another digest) follows
                s.advance(vec![], true).await;
                s.advance(vec![], true).await;
            }
        }
        // D13: proposals by members that are not the round's leader: with an empty payload, with a stored
        // batch, and with a batch that only arrives later (payload-resumed path); then the real leader's.
        "d13" => {
            for _ in 0..3 {
                s.advance(vec![], true).await;
            }
            for variant in 0..4 {
                let mut guard = 0;
                while s.p.leader(s.cur) == s.p.r && guard < 4 {
                    s.advance(vec![], true).await;
                    guard += 1;
                }
                // make sure R is in round `cur` (it has seen the QC for cur-1): send it inside a timeout
                let round = s.cur;
                let leader = s.p.leader(round);
                if s.tip.round + 1 == round {
                    let t = s.p.mk_timeout(leader, round, s.tip_qc.clone());
                    s.send(leader, ConsensusMessage::Timeout(t)).await;
                    s.settle().await;
                }
                let cands: Vec<usize> = s.p.puppets().into_iter().filter(|x| *x != leader).collect();
                let mut other = *cands.choose(&mut s.rng).unwrap();
                let d = rand_digest(&mut s.rng);
                let payload = match variant {
                    0 | 3 => vec![],
                    1 => {
                        s.p.store_batch(&d).await;
                        vec![d.clone()]
                    }
                    _ => vec![d.clone()],
                };
                let mut tc = if s.tip.round + 1 != round { Some(s.tc_for(round - 1, s.tip_qc.round)) } else { None };
                if variant == 3 && round >= 3 {
                    // the non-leader attaches a stale TC of a round t such that it leads round t+1
                    let pairs: Vec<(usize, u64)> = cands.iter().flat_map(|c| (1..round - 1).filter(|t| s.p.leader(t + 1) == *c).map(|t| (*c, t)).collect::<Vec<_>>()).collect();
                    if let Some((c, t0)) = pairs.choose(&mut s.rng).cloned() {
                        other = c;
                        tc = Some(s.tc_for(t0, 0));
                    }
                }
                let b = s.p.mk_block(other, round, s.tip_qc.clone(), tc, payload);
                s.act(format!("proposal r{} by non-leader {} (variant {})", round, other, variant));
                s.deliver(&b).await;
                s.settle().await;
                if variant == 2 {
                    s.act("batch of the non-leader block arrives");
                    s.p.store_batch(&d).await;
                    s.settle().await;
                }
                s.advance(vec![], true).await;
                s.advance(vec![], true).await;
            }
        }
        // D19: round entered through a separately delivered TC; the proposal of that round is parked for
        // a missing batch, resumed, voted; then R's timer fires (its timeout must carry the block's QC).
        "d19" => {
            for _ in 0..3 {
                s.advance(vec![], true).await;
            }
            let mut guard = 0;
            while (s.p.leader(s.cur + 1) == s.p.r || s.p.leader(s.cur) == s.p.r) && guard < 8 {
                s.advance(vec![], true).await;
                guard += 1;
            }
            // skip round cur: R learns TC(cur) from a TC message only
            let skipped = s.cur;
            let tc = s.tc_for(skipped, s.tip_qc.round);
            let from = s.p.puppets()[0];
            s.act(format!("TC message for r{} (R enters r{})", skipped, skipped + 1));
            s.send(from, ConsensusMessage::TC(tc)).await;
            s.settle().await;
            s.cur += 1;
            let d = rand_digest(&mut s.rng);
            s.act("proposal with a missing batch");
            s.advance(vec![d.clone()], true).await;
            s.settle().await;
            s.act("batch arrives");
            s.p.store_batch(&d).await;
            s.settle().await;
            s.act("let R's timer fire");
            s.p.fire_timer().await;
            for _ in 0..4 {
                s.advance(vec![], true).await;
            }
        }
        // D09: equivocation in R's current round
        "d09" => {
            for _ in 0..2 {
                s.advance(vec![], true).await;
            }
            while s.p.leader(s.cur) == s.p.r {
                s.advance(vec![], true).await;
            }
            let round = s.cur;
            let leader = s.p.leader(round);
            let d = rand_digest(&mut s.rng);
            s.p.store_batch(&d).await;
            let b2 = s.p.mk_block(leader, round, s.tip_qc.clone(), None, vec![d]);
            let first_second = s.rng.gen_bool(0.5);
            if first_second {
                s.act("equivocation delivered first");
                s.deliver(&b2).await;
                s.settle().await;
            }
            s.advance(vec![], true).await;
            if !first_second {
                s.act("equivocation delivered second");
                s.deliver(&b2).await;
                s.settle().await;
            }
            for _ in 0..3 {
                s.advance(vec![], true).await;
            }
        }
        // D10: R times out in round r, then the valid proposal for r arrives (three paths)
        "d10" => {
            let path = s.rng.gen_range(0, 3);
            for _ in 0..3 {
                s.advance(vec![], true).await;
            }
            while s.p.leader(s.cur) == s.p.r || (path == 1 && s.p.leader(s.cur - 1) == s.p.r) {
                s.advance(vec![], true).await;
            }
            match path {
                0 => {
                    s.act("D10 direct path");
                    s.p.fire_timer().await;
                    s.advance(vec![], true).await;
                }
                1 => {
                    s.act("D10 sync-resumed path");
                    // parent withheld: R learns the QC for it only from the child
                    s.answer_sync_prob = 0.0;
                    s.advance(vec![], false).await;
                    let child = s.advance(vec![], true).await;
                    let _ = child;
                    s.p.fire_timer().await;
                    s.answer_sync_prob = 1.0;
                    s.answered_syncs = 0;
                    s.settle().await;
                    s.withheld.clear();
                }
                _ => {
                    s.act("D10 payload-resumed path");
                    let d = rand_digest(&mut s.rng);
                    s.advance(vec![d.clone()], true).await;
                    s.p.fire_timer().await;
                    s.p.store_batch(&d).await;
                    s.settle().await;
                }
            }
            for _ in 0..4 {
                s.advance(vec![], true).await;
            }
        }
        // D14-D16: R is the collector: votes and timeouts race
        "d15" => {
            for _ in 0..2 {
                s.advance(vec![], true).await;
            }
            // get to a point where R leads cur+1, i.e. collects votes of round cur
            let mut guard = 0;
            while s.p.leader(s.cur + 1) != s.p.r && guard < 10 {
                s.advance(vec![], true).await;
                guard += 1;
            }
            let round = s.cur;
            let leader = s.p.leader(round);
            let tc0 = if s.tip.round + 1 != round { Some(s.tc_for(round - 1, s.tip_qc.round)) } else { None };
            let b = s.p.mk_block(leader, round, s.tip_qc.clone(), tc0, vec![]);
            s.deliver(&b).await;
            s.settle().await;
            s.all.push(b.clone());
            if s.rng.gen_bool(0.5) {
                // the leader equivocates towards the collector: R (next leader) must not vote twice
                let d = rand_digest(&mut s.rng);
                s.p.store_batch(&d).await;
                let b2 = s.p.mk_block(leader, round, b.qc.clone(), b.tc.clone(), vec![d]);
                s.act(format!("equivocating proposal for r{} at the collector", round));
                s.deliver(&b2).await;
                s.settle().await;
            }
            // messages: votes for b and timeouts for `round`, shuffled, with duplicates and one conflict
            let mut msgs: Vec<(usize, ConsensusMessage)> = Vec::new();
            let voters = s.p.random_quorum(&mut s.rng);
            for i in &voters {
                msgs.push((*i, ConsensusMessage::Vote(s.p.mk_vote(*i, &b.digest(), round))));
            }
            if s.rng.gen_bool(0.5) {
                let i = voters[0];
                msgs.push((i, ConsensusMessage::Vote(s.p.mk_vote(i, &b.digest(), round))));
                msgs.push((i, ConsensusMessage::Vote(s.p.mk_vote(i, &rand_digest(&mut s.rng), round))));
            }
            let timers = s.p.random_quorum(&mut s.rng);
            let with_timeouts = s.rng.gen_bool(0.7);
            if with_timeouts {
                for i in &timers {
                    msgs.push((*i, ConsensusMessage::Timeout(s.p.mk_timeout(*i, round, s.tip_qc.clone()))));
                }
                if s.rng.gen_bool(0.5) {
                    let entries: Vec<(usize, u64)> = timers.iter().map(|i| (*i, s.tip_qc.round)).collect();
                    let tc = s.p.mk_tc(round, &entries);
                    msgs.push((timers[0], ConsensusMessage::TC(tc)));
                }
            }
            msgs.shuffle(&mut s.rng);
            s.act(format!("race of {} votes/timeouts/TC for r{} at collector R", msgs.len(), round));
            s.p.certified.insert(b.digest());
            let lockstep = s.rng.gen_bool(0.5);
            for (i, m) in msgs {
                s.send(i, m).await;
                if lockstep {
                    s.p.settle().await;
                }
            }
            s.settle().await;
            // continue from whatever R proposed (if anything)
            if let Some(rb) = s.p.r_blocks.iter().find(|x| x.round == round + 1).cloned() {
                if rb.qc.hash == b.digest() {
                    s.tip = b.clone();
                    s.tip_qc = rb.qc.clone();
                    let parent_round = s.p.blocks.get(&b.qc.hash).map(|x| x.round).unwrap_or(0);
                    if parent_round + 1 == b.round && parent_round > s.lock_round {
                        s.lock = b.qc.hash.clone();
                        s.lock_round = parent_round;
                    }
                }
                s.all.push(rb.clone());
                s.cur = round + 2;
                if let Some(qc) = s.certify(&rb) {
                    s.tip = rb;
                    s.tip_qc = qc;
                }
            } else {
                s.cur = round + 2;
            }
            for _ in 0..4 {
                s.advance(vec![], true).await;
            }
        }
        // D17: a timeout whose high-QC is far ahead of R's round
        "d17" => {
            for _ in 0..2 {
                s.advance(vec![], true).await;
            }
            // build 3..8 blocks R does not see
            let k = s.rng.gen_range(3, 9);
            for _ in 0..k {
                s.advance(vec![], false).await;
            }
            let round = s.cur;
            let hq = s.tip_qc.clone();
            let signers = s.p.random_quorum(&mut s.rng);
            s.act(format!("timeouts r{} with high-QC r{} far ahead of R", round, hq.round));
            for i in signers {
                let t = s.p.mk_timeout(i, round, hq.clone());
                s.send(i, ConsensusMessage::Timeout(t)).await;
            }
            s.cur += 1;
            s.settle().await;
            let w: Vec<Block> = s.withheld.drain(..).collect();
            for b in w {
                s.deliver(&b).await;
                s.settle().await;
            }
            for _ in 0..4 {
                s.advance(vec![], true).await;
            }
        }
        // D18: payload availability
        "d18" => {
            for _ in 0..2 {
                s.advance(vec![], true).await;
            }
            for variant in 0..8 {
                while s.p.leader(s.cur) == s.p.r {
                    s.advance(vec![], true).await;
                }
                let k = s.rng.gen_range(1, 5);
                let ds: Vec<Digest> = (0..k).map(|_| rand_digest(&mut s.rng)).collect();
                match variant {
                    0 => {
                        for d in &ds {
                            s.p.store_batch(d).await;
                        }
                        s.advance(ds.clone(), true).await;
                    }
                    1 => {
                        // partially missing, arriving one by one
                        s.p.store_batch(&ds[0]).await;
                        s.advance(ds.clone(), true).await;
                        for d in ds.iter().skip(1) {
                            s.p.store_batch(d).await;
                            s.settle().await;
                        }
                    }
                    2 => {
                        // all missing, arrive in reverse order
                        s.advance(ds.clone(), true).await;
                        for d in ds.iter().rev() {
                            s.p.store_batch(d).await;
                            s.settle().await;
                        }
                    }
                    3 => {
                        // never arrive: the network moves on without this block
                        let tip = s.tip.clone();
                        let tqc = s.tip_qc.clone();
                        let b = s.advance(ds.clone(), true).await;
                        if let Some(b) = b {
                            if s.tip.digest() == b.digest() {
                                s.tip = tip;
                                s.tip_qc = tqc;
                            }
                        }
                    }
                    4 => {
                        // arrive after R timed out
                        s.advance(ds.clone(), true).await;
                        s.p.fire_timer().await;
                        for d in &ds {
                            s.p.store_batch(d).await;
                        }
                        s.settle().await;
                    }
                    5 => {
                        // two different blocks of one round (same parent) share one missing batch
                        let shared = ds[0].clone();
                        let (qc0, round0, tip0) = (s.tip_qc.clone(), s.cur, s.tip.clone());
                        let a = s.advance(vec![shared.clone(), ds[ds.len() - 1].clone()], true).await;
                        if let Some(a) = a {
                            let leader = s.p.topo.index_of(&a.author).unwrap();
                            let tc = a.tc.clone();
                            let b = s.p.mk_block(leader, round0, qc0, tc, vec![shared.clone()]);
                            let _ = tip0;
                            s.act(format!("second block for r{} sharing a missing batch", round0));
                            s.deliver(&b).await;
                            s.settle().await;
                        }
                        for d in ds.iter().rev() {
                            s.p.store_batch(d).await;
                            s.settle().await;
                        }
                    }
                    6 => {
                        // the same proposal is delivered again (re-broadcast / sync reply) while its batches
                        // are still missing: still no vote before they are stored
                        let b = s.advance(ds.clone(), true).await;
                        if let Some(b) = b {
                            for _ in 0..2 {
                                s.act(format!("re-delivery of r{} while its batches are missing", b.round));
                                s.deliver(&b).await;
                                s.settle().await;
                            }
                        }
                        s.p.wait_ms(30).await;
                        for d in &ds {
                            s.p.store_batch(d).await;
                        }
                        s.settle().await;
                    }
                    _ => {
                        // duplicate digests and the digest of a stored block
                        let mut p2 = vec![ds[0].clone(), ds[0].clone()];
                        if s.tip.round > 0 {
                            p2.push(s.tip.digest());
                        }
                        s.advance(p2, true).await;
                        s.p.store_batch(&ds[0]).await;
                        s.settle().await;
                    }
                }
                s.advance(vec![], true).await;
            }
            for _ in 0..3 {
                s.advance(vec![], true).await;
            }
        }
        other => panic!("unknown puppet class {}", other),
    }
    s.settle().await;
}

pub fn execute(class: &str, seed: u64, p: &Params) -> PuppetOutcome {
    let class = class.to_string();
    let p = p.clone();
    run_virtual(async move {
        evlog::begin();
        let mut rng = StdRng::seed_from_u64(seed.wrapping_mul(0x2545_f491_4f6c_dd1d).wrapping_add(3));
        let mut s = start(seed, &p, &mut rng).await;
        s.p.settle().await;
        if class == "rand" {
            let steps = p.get_u64("steps").map(|x| x as usize).unwrap_or_else(|| rng.gen_range(30, 120));
            random_script(&mut s, steps).await;
        } else {
            directed(&mut s, &class).await;
        }
        // Quiet period so that every loop-back / retry has run.
        s.p.wait_ms(50).await;
        let actions = s.actions.clone();
        if s.expect_catch_up {
            // What R must have committed: walking down from the last delivered certified block x, the
            // first pair b0 <- b1 <- x' with consecutive rounds (x' carries the QC for b1).
            let mut x = s.tip.clone();
            let mut want = 0u64;
            for _ in 0..10_000 {
                let b1 = match s.p.blocks.get(&x.qc.hash) {
                    Some(b) if b.round > 0 => b.clone(),
                    _ => break,
                };
                let b0 = match s.p.blocks.get(&b1.qc.hash) {
                    Some(b) if b.round > 0 => b.clone(),
                    _ => break,
                };
                if b0.round + 1 == b1.round {
                    want = b0.round;
                    break;
                }
                x = b1;
            }
            evlog::note(format!("C07:expect_commit_round {}", want));
        }
        let extra = json!({
            "n": s.p.topo.n, "r": s.p.r, "stakes": s.p.topo.stakes,
            "messages_sent_to_R": s.p.sent,
            "R_blocks": s.p.r_blocks.len(), "R_votes": s.p.r_votes.len(), "R_timeouts": s.p.r_timeouts.len(), "R_tcs": s.p.r_tcs.len(), "R_sync_requests": s.p.r_syncs.len(),
        });
        let log = evlog::end();
        let (topo, r, store_of, _certified, _blocks) = s.p.finish();
        PuppetOutcome { log, topo, r, store_of, actions, extra }
    })
}

pub fn run(class: &str, seed: u64, p: &Params) -> RunResult {
    let t0 = std::time::Instant::now();
    let out = execute(class, seed, p);
    let ctx = Ctx { topo: &out.topo, honest: vec![out.r], store_of: out.store_of.clone(), log: &out.log };
    let (mut report, _ix) = monitors::check_all(&ctx);
    // C01 needs several honest nodes: its counters are meaningless here.
    report.counters.retain(|k, _| !k.starts_with("C01."));
    // C07 (puppet part): after a catch-up script R must have committed up to the head of the highest
    // certified consecutive 2-chain it was shown.
    let max_commit = out.log.iter().filter_map(|e| match &e.kind { Kind::App { block, .. } => Some(block.round), _ => None }).max().unwrap_or(0);
    for e in &out.log {
        if let Kind::Note { what } = &e.kind {
            if let Some(x) = what.strip_prefix("C07:expect_commit_round ") {
                let want: u64 = x.parse().unwrap_or(0);
                report.count("C07.puppet_catch_ups_checked", 1);
                if max_commit < want {
                    report.violate(
                        "C07",
                        "lagging-node-did-not-catch-up",
                        format!("the node was shown a certified chain up to a committable block of round {} (ancestors withheld, to be fetched by sync) but only committed up to round {}", want, max_commit),
                        out.actions.iter().rev().take(30).rev().cloned().collect(),
                    );
                }
            } else if what == "C07:sync_probe_answered" {
                report.count("C07.sync_probes_answered", 1);
            } else if let Some(x) = what.strip_prefix("C07:sync_probe_unanswered ") {
                report.violate(
                    "C07",
                    "sync-request-for-stored-block-not-answered",
                    format!("a peer asked the node for block {} which it had stored (it voted for it), and got no answer", x),
                    out.actions.iter().rev().take(20).rev().cloned().collect(),
                );
            } else if what == "C07:retry_observed" {
                report.sit("C07:retry_observed");
                report.count("C07.retries_observed", 1);
            } else if what == "C07:first_sync_target_silent" {
                report.sit("C07:first_sync_target_silent");
            } else if what == "C07:deeper_sync_request_unanswered" {
                report.sit("C07:deeper_sync_request_unanswered");
            }
        }
    }
    let fingerprint = monitors::fingerprint(&ctx);
    for (loc, msg, th) in evlog::take_panics() {
        report.violate("C15", format!("panic@{}", loc), format!("panic in thread {}: {}", th, msg), vec![]);
    }
    if std::env::var("HSV_DUMP").is_ok() {
        for ev in &out.log {
            eprintln!("{}", monitors::describe(ev));
        }
    }
    let commits: Vec<u64> = out
        .log
        .iter()
        .filter_map(|e| match &e.kind {
            Kind::App { block, .. } => Some(block.round),
            _ => None,
        })
        .collect();
    let vt = out.log.last().map(|e| e.vt_us / 1000).unwrap_or(0);
    let sample = json!({
        "setup": out.extra,
        "actions_head": out.actions.iter().take(40).collect::<Vec<_>>(),
        "actions": out.actions.len(),
        "R_committed_rounds_head": commits.iter().take(40).collect::<Vec<_>>(),
    });
    let _ = (HashSet::<u8>::new(), Bytes::new(), TryInto::<u8>::try_into(0u8));
    RunResult {
        workload: "puppet".into(),
        class: class.into(),
        seed,
        params: out.extra.clone(),
        report,
        fingerprint,
        wall_ms: t0.elapsed().as_millis() as u64,
        virtual_ms: vt,
        sample,
        cases: 0,
        classes: Vec::new(),
    }
}
