// hsv: runtime-monitoring harness for asonnino/hotstuff (see /verif/DESIGN.md).
#[path = "../../repo/node/src/config.rs"]
#[allow(dead_code)]
mod config;
#[path = "../../repo/node/src/node.rs"]
#[allow(dead_code)]
mod node;

mod cluster;
mod comp_mempool;
mod comp_msync;
mod comp_pure;
mod comp_sender;
mod comp_store;
mod evlog;
mod model;
mod monitors;
mod net;
mod puppet;
mod result;
mod scen_byz;
mod scen_cluster;
mod scen_e2e;
mod scen_hostile;
mod scen_puppet;
mod world;

use std::collections::HashMap;

#[derive(Default, Clone)]
pub struct Params(pub HashMap<String, String>);

impl Params {
    pub fn get(&self, k: &str) -> Option<&str> {
        self.0.get(k).map(|s| s.as_str())
    }
    pub fn get_u64(&self, k: &str) -> Option<u64> {
        self.0.get(k).and_then(|s| s.parse().ok())
    }
    pub fn get_f64(&self, k: &str) -> Option<f64> {
        self.0.get(k).and_then(|s| s.parse().ok())
    }
}

fn main() {
    let args: Vec<String> = std::env::args().collect();
    if args.len() < 2 {
        eprintln!("usage: hsv <workload> [class] [key=value ...]   (seed=.. count=..)");
        std::process::exit(2);
    }
    let workload = args[1].clone();
    let mut params = Params::default();
    let mut class = String::new();
    for a in &args[2..] {
        if let Some((k, v)) = a.split_once('=') {
            params.0.insert(k.to_string(), v.to_string());
        } else {
            class = a.clone();
        }
    }
    let seed0 = params.get_u64("seed").unwrap_or(1);
    let count = params.get_u64("count").unwrap_or(1);
    evlog::install_panic_hook();
    for k in 0..count {
        let seed = seed0 + k;
        // A panic of the harness's own main thread (an oracle tripping over behaviour it did not
        // expect) must not take the remaining scenarios of this worker with it, and must never be
        // mistaken for a verdict: it is reported as an inconclusive run.
        let (w, c, p) = (workload.clone(), class.clone(), params.clone());
        let outcome = std::panic::catch_unwind(move || match w.as_str() {
            "cluster" => scen_cluster::run(&c, seed, &p).print(),
            "byz" => scen_byz::run(&c, seed, &p).print(),
            "e2e" => scen_e2e::run(&c, seed, &p).print(),
            "hostile" => scen_hostile::run(&c, seed, &p).print(),
            "puppet" => scen_puppet::run(&c, seed, &p).print(),
            "c11" | "c12" => comp_mempool::run(&w, &c, seed, &p).print(),
            "c13s" => comp_msync::run(&c, seed, &p).print(),
            "c14" => comp_sender::run(&c, seed, &p).print(),
            "c16" => comp_store::run(&c, seed, &p).print(),
            "c17" | "c18" | "c20" | "c09" | "c19" | "c04" => comp_pure::run(&w, &c, seed, &p).print(),
            other => {
                eprintln!("unknown workload {}", other);
                std::process::exit(2);
            }
        });
        if outcome.is_err() {
            let panics = evlog::take_panics();
            let last = panics.last().cloned().unwrap_or_default();
            println!(
                "RESULT {}",
                serde_json::json!({
                    "workload": workload, "class": class, "seed": seed, "params": {}, "violations": [], "counters": {}, "situations": [],
                    "inconclusive": [format!("ALL: the harness panicked at {}: {}", last.0, last.1)],
                    "fingerprint": "harness-panic", "wall_ms": 0, "virtual_ms": 0, "sample": null, "cases": 0, "classes": [],
                })
            );
            // Global state (simnet world, sinks, log) may be inconsistent: leave the remaining seeds to a fresh process.
            std::process::exit(3);
        }
    }
}
