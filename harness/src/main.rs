// hsv: runtime-monitoring harness for asonnino/hotstuff (see /verif/DESIGN.md).
#[path = "../../repo/node/src/config.rs"]
#[allow(dead_code)]
mod config;
#[path = "../../repo/node/src/node.rs"]
#[allow(dead_code)]
mod node;

mod cluster;
mod comp_mempool;
mod comp_pure;
mod comp_sender;
mod comp_store;
mod evlog;
mod model;
mod monitors;
mod net;
mod puppet;
mod result;
mod scen_byz;
mod scen_cluster;
mod scen_e2e;
mod scen_hostile;
mod scen_puppet;
mod world;

use std::collections::HashMap;

#[derive(Default, Clone)]
pub struct Params(pub HashMap<String, String>);

impl Params {
    pub fn get(&self, k: &str) -> Option<&str> {
        self.0.get(k).map(|s| s.as_str())
    }
    pub fn get_u64(&self, k: &str) -> Option<u64> {
        self.0.get(k).and_then(|s| s.parse().ok())
    }
    pub fn get_f64(&self, k: &str) -> Option<f64> {
        self.0.get(k).and_then(|s| s.parse().ok())
    }
}

fn main() {
    let args: Vec<String> = std::env::args().collect();
    if args.len() < 2 {
        eprintln!("usage: hsv <workload> [class] [key=value ...]   (seed=.. count=..)");
        std::process::exit(2);
    }
    let workload = args[1].clone();
    let mut params = Params::default();
    let mut class = String::new();
    for a in &args[2..] {
        if let Some((k, v)) = a.split_once('=') {
            params.0.insert(k.to_string(), v.to_string());
        } else {
            class = a.clone();
        }
    }
    let seed0 = params.get_u64("seed").unwrap_or(1);
    let count = params.get_u64("count").unwrap_or(1);
    evlog::install_panic_hook();
    for k in 0..count {
        let seed = seed0 + k;
        match workload.as_str() {
            "cluster" => scen_cluster::run(&class, seed, &params).print(),
            "byz" => scen_byz::run(&class, seed, &params).print(),
            "e2e" => scen_e2e::run(&class, seed, &params).print(),
            "hostile" => scen_hostile::run(&class, seed, &params).print(),
            "puppet" => scen_puppet::run(&class, seed, &params).print(),
            "c11" | "c12" => comp_mempool::run(&workload, &class, seed, &params).print(),
            "c14" => comp_sender::run(&class, seed, &params).print(),
            "c16" => comp_store::run(&class, seed, &params).print(),
            "c17" | "c18" | "c20" | "c09" | "c19" | "c04" => comp_pure::run(&workload, &class, seed, &params).print(),
            other => {
                eprintln!("unknown workload {}", other);
                std::process::exit(2);
            }
        }
    }
}
