// Offline checkers over one scenario's event log. Each property has its own function; the
// cluster / puppet engines run all of them on every run ("always-on").
use crate::evlog::{CMsg, Ev, Frame, Kind, Parsed};
use crate::model::*;
use crate::world::{Topo, SVC_CONSENSUS};
use consensus::verif::{Event as CE, Input};
use consensus::{Block, QC, TC};
use crypto::{Digest, Hash as _, PublicKey};
use network::simnet::Dir;
use std::collections::{BTreeMap, BTreeSet, HashMap, HashSet};

#[derive(Clone, Debug)]
pub struct Violation {
    pub property: &'static str,
    /// Stable signature of the failing pattern (used for known-findings matching).
    pub sig: String,
    pub detail: String,
    pub witness: Vec<String>,
}

#[derive(Default)]
pub struct Report {
    pub violations: Vec<Violation>,
    pub counters: BTreeMap<String, u64>,
    /// Situations reached, per property ("C02:gap_walk" ...).
    pub situations: BTreeSet<String>,
    pub inconclusive: Vec<String>,
}

impl Report {
    pub fn count(&mut self, k: &str, by: u64) {
        *self.counters.entry(k.to_string()).or_insert(0) += by;
    }
    pub fn max(&mut self, k: &str, v: u64) {
        let e = self.counters.entry(k.to_string()).or_insert(0);
        if v > *e {
            *e = v;
        }
    }
    pub fn sit(&mut self, s: &str) {
        self.situations.insert(s.to_string());
    }
    pub fn violate(&mut self, property: &'static str, sig: impl Into<String>, detail: impl Into<String>, witness: Vec<String>) {
        // Keep the report bounded: at most 20 violations per (property, sig).
        let sig = sig.into();
        let same = self.violations.iter().filter(|v| v.property == property && v.sig == sig).count();
        self.count(&format!("violations.{}", property), 1);
        if same < 20 {
            self.violations.push(Violation { property, sig, detail: detail.into(), witness });
        }
    }
    pub fn merge(&mut self, other: Report) {
        self.violations.extend(other.violations);
        for (k, v) in other.counters {
            if k.starts_with("max.") {
                self.max(&k, v);
            } else {
                self.count(&k, v);
            }
        }
        self.situations.extend(other.situations);
        self.inconclusive.extend(other.inconclusive);
    }
}

pub struct Ctx<'a> {
    pub topo: &'a Topo,
    /// Indices of real (honest) nodes.
    pub honest: Vec<usize>,
    pub store_of: HashMap<String, usize>,
    pub log: &'a [Ev],
}

impl<'a> Ctx<'a> {
    pub fn idx(&self, k: &PublicKey) -> Option<usize> {
        self.topo.index_of(k)
    }
    pub fn is_honest(&self, i: usize) -> bool {
        self.honest.contains(&i)
    }
}

fn core_node(e: &CE) -> &PublicKey {
    match e {
        CE::Begin { node, .. }
        | CE::Process { node, .. }
        | CE::End { node, .. }
        | CE::Vote { node, .. }
        | CE::Timeout { node, .. }
        | CE::Round { node, .. }
        | CE::QC { node, .. }
        | CE::TC { node, .. }
        | CE::Commit { node, .. }
        | CE::Make { node, .. } => node,
    }
}

pub fn describe(ev: &Ev) -> String {
    let body = match &ev.kind {
        Kind::Core(e) => match e {
            CE::Begin { input, .. } => format!("core.begin {:?}", input),
            CE::Process { digest, round, .. } => format!("core.process {} r{}", short(digest), round),
            CE::End { error, round, last_voted_round, last_committed_round, high_qc_round, .. } => format!(
                "core.end err={:?} round={} lvr={} lcr={} hqc={}",
                error, round, last_voted_round, last_committed_round, high_qc_round
            ),
            CE::Vote { hash, round, block, .. } => format!("core.vote {} r{} qc.round={} tc={:?}", short(hash), round, block.qc.round, block.tc.as_ref().map(|t| (t.round, t.high_qc_rounds()))),
            CE::Timeout { round, high_qc, .. } => format!("core.timeout r{} hqc={}", round, high_qc.round),
            CE::Round { from, to, .. } => format!("core.round {}->{}", from, to),
            CE::QC { qc, .. } => format!("core.qc {} r{} signers={}", short(&qc.hash), qc.round, qc.votes.len()),
            CE::TC { tc, .. } => format!("core.tc r{} hq={:?}", tc.round, tc.high_qc_rounds()),
            CE::Commit { block, .. } => format!("core.commit {} r{} parent={}", short(&block.digest()), block.round, short(&block.qc.hash)),
            CE::Make { round, qc, tc, .. } => format!("core.make r{} qc={} tc={:?}", round, qc.round, tc.as_ref().map(|t| t.round)),
        },
        Kind::FrameOut { frame, lost } => format!("net.out {} lost={}", frame_desc(frame), lost),
        Kind::FrameIn { frame } => format!("net.in {}", frame_desc(frame)),
        Kind::Connect { conn, route, ok } => format!("net.connect c{} {:?} ok={}", conn, route, ok),
        Kind::Closed { conn, dir, reset, .. } => format!("net.closed c{} {:?} reset={}", conn, dir, reset),
        Kind::StoreWrite { store, key, len } => format!("store.write {} key={} len={}", store.rsplit('/').next().unwrap_or(""), crate::evlog::hex(key), len),
        Kind::Signed { signer, digest } => format!("sig.signed by={} d={}", crate::evlog::hex(&signer.0), short(digest)),
        Kind::App { node, block } => format!("app.commit n{} {} r{} parent={}", node, short(&block.digest()), block.round, short(&block.qc.hash)),
        Kind::Note { what } => format!("note {}", what),
        Kind::Panic { location, message, thread } => format!("panic at {} [{}]: {}", location, thread, message),
    };
    let node = match &ev.kind {
        Kind::Core(e) => format!(" n={}", crate::evlog::hex(&core_node(e).0)),
        _ => String::new(),
    };
    format!("#{} t={}us{} {}", ev.seq, ev.vt_us, node, body)
}

pub fn frame_desc(f: &Frame) -> String {
    let m = match &f.parsed {
        Parsed::Cons(CMsg::Propose(b)) => format!(
            "Propose {} r{} by={} qc=({},r{}) tc={:?} payload={}",
            short(&b.digest()),
            b.round,
            crate::evlog::hex(&b.author.0),
            short(&b.qc.hash),
            b.qc.round,
            b.tc.as_ref().map(|t| (t.round, t.high_qc_rounds())),
            b.payload.len()
        ),
        Parsed::Cons(CMsg::Vote(v)) => format!("Vote {} r{} by={}", short(&v.hash), v.round, crate::evlog::hex(&v.author.0)),
        Parsed::Cons(CMsg::Timeout(t)) => format!("Timeout r{} hqc={} by={}", t.round, t.high_qc.round, crate::evlog::hex(&t.author.0)),
        Parsed::Cons(CMsg::TC(t)) => format!("TC r{} hq={:?}", t.round, t.high_qc_rounds()),
        Parsed::Cons(CMsg::Sync(d, o)) => format!("SyncRequest {} from={}", short(d), crate::evlog::hex(&o.0)),
        Parsed::Batch { digest, txs } => format!("Batch {} txs={}", short(digest), txs),
        Parsed::BatchRequest { digests, .. } => format!("BatchRequest n={}", digests.len()),
        Parsed::Tx => format!("Tx len={}", f.data.len()),
        Parsed::Reply => format!("Reply len={}", f.data.len()),
        Parsed::Undecodable => format!("Undecodable len={}", f.data.len()),
    };
    format!("c{} {}->{} svc{} #{} {}", f.conn, f.sender(), f.receiver(), f.route.svc, f.idx, m)
}

/// Indexes shared by the monitors.
pub struct Index {
    pub blocks: BlockMap,
    /// Per node index: positions in the log of its Core events.
    pub core: HashMap<usize, Vec<usize>>,
}

pub fn build_index(cx: &Ctx) -> Index {
    let mut blocks = BlockMap::default();
    let mut core: HashMap<usize, Vec<usize>> = HashMap::new();
    for (pos, ev) in cx.log.iter().enumerate() {
        match &ev.kind {
            Kind::FrameOut { frame, .. } => {
                if let Some(CMsg::Propose(b)) = frame.cons() {
                    blocks.add(b);
                }
            }
            Kind::Core(e) => {
                if let CE::Commit { block, .. } = e {
                    blocks.add(block);
                }
                if let CE::Begin { input: Input::Propose(block), .. } = e {
                    blocks.add(block);
                }
                if let Some(i) = cx.idx(core_node(e)) {
                    core.entry(i).or_default().push(pos);
                }
            }
            Kind::App { block, .. } => blocks.add(block),
            _ => {}
        }
    }
    Index { blocks, core }
}

fn wit(cx: &Ctx, positions: &[usize]) -> Vec<String> {
    positions.iter().filter_map(|p| cx.log.get(*p)).map(describe).collect()
}

/// Is this frame delivered to real node `i`'s consensus port?
fn delivered_to(f: &Frame, i: usize) -> bool {
    f.dir == Dir::ToServer && f.route.svc == SVC_CONSENSUS && f.route.dst == i
}

fn sent_by(f: &Frame, i: usize) -> bool {
    f.dir == Dir::ToServer && f.route.svc == SVC_CONSENSUS && f.route.src == i
}

// ---------------------------------------------------------------------------------------------
// C01 agreement
pub fn check_c01(cx: &Ctx, ix: &Index) -> Report {
    let mut r = Report::default();
    let mut committed: HashMap<Digest, (u64, usize, usize)> = HashMap::new(); // digest -> (round, node, pos)
    let mut per_node_count: HashMap<usize, u64> = HashMap::new();
    for (pos, ev) in cx.log.iter().enumerate() {
        let (node, block) = match &ev.kind {
            Kind::App { node, block } => (*node, block),
            Kind::Core(CE::Commit { node, block }) => match cx.idx(node) {
                Some(i) => (i, block),
                None => continue,
            },
            _ => continue,
        };
        if !cx.is_honest(node) || block.round == 0 {
            continue;
        }
        *per_node_count.entry(node).or_default() += 1;
        committed.entry(block.digest()).or_insert((block.round, node, pos));
    }
    let mut list: Vec<(u64, Digest, usize, usize)> = committed.into_iter().map(|(d, (round, n, p))| (round, d, n, p)).collect();
    list.sort();
    r.count("C01.distinct_committed_blocks", list.len() as u64);
    r.count("C01.nodes_with_commits", per_node_count.len() as u64);
    for w in list.windows(2) {
        let (ra, da, na, pa) = &w[0];
        let (rb, db, nb, pb) = &w[1];
        if ra == rb {
            r.violate(
                "C01",
                "two-blocks-same-round",
                format!("round {} committed as {} (node {}) and as {} (node {})", ra, short(da), na, short(db), nb),
                wit(cx, &[*pa, *pb]),
            );
            continue;
        }
        match ix.blocks.is_ancestor_or_self(da, *ra, db) {
            Some(true) => r.count("C01.chain_links_checked", 1),
            Some(false) => r.violate(
                "C01",
                "committed-blocks-not-on-one-chain",
                format!("{} (r{}, node {}) is not an ancestor of {} (r{}, node {})", short(da), ra, na, short(db), rb, nb),
                wit(cx, &[*pa, *pb]),
            ),
            None => r.inconclusive.push(format!("C01: unknown block on the path from {} to {}", short(db), short(da))),
        }
    }
    // Forks seen in the block map (evidence that the adversary did something).
    let mut children: HashMap<Digest, u64> = HashMap::new();
    let mut per_round: HashMap<(PublicKey, u64), HashSet<Digest>> = HashMap::new();
    for (d, b) in &ix.blocks.blocks {
        *children.entry(b.qc.hash.clone()).or_default() += 1;
        per_round.entry((b.author, b.round)).or_default().insert(d.clone());
    }
    r.count("C01.fork_points", children.values().filter(|c| **c > 1).count() as u64);
    r.count("C01.equivocated_rounds", per_round.values().filter(|s| s.len() > 1).count() as u64);
    r
}

// ---------------------------------------------------------------------------------------------
// C02 exactly-once in-order delivery (decided at the commit channel only)
pub fn check_c02(cx: &Ctx, _ix: &Index) -> Report {
    let mut r = Report::default();
    let mut seqs: HashMap<usize, Vec<(usize, &Block)>> = HashMap::new();
    for (pos, ev) in cx.log.iter().enumerate() {
        if let Kind::App { node, block } = &ev.kind {
            if cx.is_honest(*node) {
                seqs.entry(*node).or_default().push((pos, block));
            }
        }
    }
    for (node, seq) in &seqs {
        r.count("C02.delivered", seq.len() as u64);
        let mut seen: HashSet<Digest> = HashSet::new();
        let mut prev: Option<(usize, &Block)> = None;
        for (pos, b) in seq {
            let d = b.digest();
            let mut bad: Option<(&'static str, String)> = None;
            if b.round == 0 && b.qc.hash == Digest::default() && b.author == PublicKey::default() {
                bad = Some(("genesis-delivered", "the genesis placeholder was delivered".into()));
            } else if !seen.insert(d.clone()) {
                bad = Some(("duplicate-delivery", format!("block {} r{} delivered twice", short(&d), b.round)));
            } else {
                match prev {
                    None => {
                        if !is_genesis_qc(&b.qc) {
                            bad = Some(("first-not-on-genesis", format!("first delivered block r{} does not extend genesis", b.round)));
                        }
                    }
                    Some((_, p)) => {
                        if b.qc.hash != p.digest() {
                            let sig = if b.round <= p.round { "out-of-order" } else { "parent-link-broken" };
                            bad = Some((sig, format!(
                                "delivered r{} ({}) after r{} ({}) but its parent is {}",
                                b.round, short(&d), p.round, short(&p.digest()), short(&b.qc.hash)
                            )));
                        } else if b.round <= p.round {
                            bad = Some(("round-not-increasing", format!("r{} after r{}", b.round, p.round)));
                        }
                    }
                }
            }
            if let Some((sig, detail)) = bad {
                let mut w = Vec::new();
                if let Some((pp, _)) = prev {
                    w.push(pp);
                }
                w.push(*pos);
                r.violate("C02", sig, format!("node {}: {}", node, detail), wit(cx, &w));
            } else {
                r.count("C02.links_ok", 1);
                if let Some((_, p)) = prev {
                    if b.round > p.round + 1 {
                        r.sit("C02:round_gap_in_sequence");
                    }
                } else if b.round > 1 {
                    r.sit("C02:first_block_round_gt_1");
                }
            }
            prev = Some((*pos, b));
        }
    }
    // How many blocks each Core::commit call delivered (ancestor walk evidence).
    for (_node, positions) in &_ix.core {
        let mut in_bracket = 0u64;
        for p in positions {
            match &cx.log[*p].kind {
                Kind::Core(CE::Commit { .. }) => in_bracket += 1,
                Kind::Core(CE::End { .. }) => {
                    if in_bracket >= 2 {
                        r.sit("C02:multi_block_commit");
                        r.count("C02.multi_block_commits", 1);
                        r.max("max.C02.blocks_in_one_commit", in_bracket);
                        if in_bracket >= 3 {
                            r.sit("C02:commit_with_2plus_ancestors");
                        }
                    }
                    in_bracket = 0;
                }
                _ => {}
            }
        }
    }
    r
}

// ---------------------------------------------------------------------------------------------
// C03 voting safety
pub fn check_c03(cx: &Ctx, ix: &Index, sc: &mut SigCache) -> Report {
    let mut r = Report::default();
    // (a) hook order inside Core.
    for (node, positions) in &ix.core {
        if !cx.is_honest(*node) {
            continue;
        }
        let mut last_vote: Option<(u64, usize)> = None;
        let mut timeouts: HashMap<u64, usize> = HashMap::new();
        let mut votes_by_round: HashMap<u64, (Digest, usize)> = HashMap::new();
        let mut cur_round: u64 = 1;
        for p in positions {
            match &cx.log[*p].kind {
                Kind::Core(CE::Round { to, .. }) => cur_round = *to,
                Kind::Core(CE::End { round, .. }) => cur_round = *round,
                Kind::Core(CE::Process { digest, round, .. }) => {
                    // Evidence only: which rejecting branches of the voting rule were exercised.
                    if let Some(b) = ix.blocks.get(digest) {
                        if b.qc.round >= b.round && b.tc.as_ref().map_or(false, |t| t.round + 1 == b.round) && !votes_by_round.keys().any(|v| v >= round) {
                            // votable by every rule except "the QC is of a lower round than the block"
                            r.sit("C03:qc_not_below_round_offered");
                            r.count("C03.offered_block_whose_qc_is_not_of_a_lower_round", 1);
                        }
                        if *round < cur_round {
                            r.sit("C03:stale_round_proposal_processed");
                        } else if *round > cur_round {
                            r.sit("C03:future_round_proposal_processed");
                        } else if votes_by_round.contains_key(round) {
                            r.sit("C03:second_proposal_after_vote");
                            r.count("C03.offered_second_proposal_after_vote", 1);
                        } else if timeouts.contains_key(round) {
                            r.sit("C03:proposal_after_own_timeout");
                            r.count("C03.offered_proposal_after_own_timeout", 1);
                        } else if extension(b) == Extension::Neither {
                            r.sit("C03:unsafe_extension_offered");
                            r.count("C03.offered_unsafe_extension", 1);
                        }
                    }
                }
                Kind::Core(CE::Timeout { round, .. }) => {
                    timeouts.entry(*round).or_insert(*p);
                    r.count("C03.timeouts", 1);
                }
                Kind::Core(CE::Vote { hash, round, block: voted, .. }) => {
                    r.count("C03.votes_checked", 1);
                    if voted.digest() != *hash {
                        r.violate("C03", "vote-hash-mismatch", format!("node {} voted for hash {} but the proposal hashes to {}", node, short(hash), short(&voted.digest())), wit(cx, &[*p]));
                    }
                    if let Some((d0, p0)) = votes_by_round.get(round) {
                        r.violate(
                            "C03",
                            "two-votes-one-round",
                            format!("node {} voted twice in round {} ({} and {})", node, round, short(d0), short(hash)),
                            wit(cx, &[*p0, *p]),
                        );
                    } else if let Some((lr, lp)) = last_vote {
                        if *round <= lr {
                            r.violate(
                                "C03",
                                "vote-round-not-increasing",
                                format!("node {} voted in round {} after voting in round {}", node, round, lr),
                                wit(cx, &[lp, *p]),
                            );
                        }
                    }
                    if let Some(tp) = timeouts.get(round) {
                        r.violate(
                            "C03",
                            "vote-after-timeout",
                            format!("node {} voted in round {} after timing out in it", node, round),
                            wit(cx, &[*tp, *p]),
                        );
                    }
                    match Some(voted) {
                        Some(b) => {
                            if b.round != *round {
                                r.violate("C03", "vote-round-mismatch", format!("vote round {} for block of round {}", round, b.round), wit(cx, &[*p]));
                            }
                            match extension(b) {
                                Extension::DirectQc => r.count("C03.votes_direct_qc", 1),
                                Extension::ViaTc => {
                                    r.count("C03.votes_via_tc", 1);
                                    r.sit("C03:vote_via_tc");
                                }
                                Extension::Neither => r.violate(
                                    "C03",
                                    "vote-for-unsafe-extension",
                                    format!(
                                        "node {} voted for block r{} with qc.round={} tc={:?}",
                                        node, b.round, b.qc.round, b.tc.as_ref().map(|t| (t.round, t.high_qc_rounds()))
                                    ),
                                    wit(cx, &[*p]),
                                ),
                            }
                        }
                        None => {}
                    }
                    votes_by_round.insert(*round, (hash.clone(), *p));
                    last_vote = Some((*round, *p));
                }
                _ => {}
            }
        }
    }
    // (b) boundary: validly signed votes of honest authors on the wire and inside certificates.
    let mut boundary: HashMap<(usize, u64), HashMap<Digest, usize>> = HashMap::new();
    let mut hook_votes: HashSet<(usize, u64, Digest)> = HashSet::new();
    let mut hook_timeouts: HashSet<(usize, u64, u64)> = HashSet::new();
    for (pos, ev) in cx.log.iter().enumerate() {
        match &ev.kind {
            Kind::Core(CE::Vote { node, hash, round, .. }) => {
                if let Some(i) = cx.idx(node) {
                    hook_votes.insert((i, *round, hash.clone()));
                }
            }
            Kind::Core(CE::Timeout { node, round, high_qc }) => {
                if let Some(i) = cx.idx(node) {
                    hook_timeouts.insert((i, *round, high_qc.round));
                }
            }
            Kind::FrameOut { frame, .. } => {
                let mut note = |author: &PublicKey, hash: &Digest, round: u64, sig: &crypto::Signature, sc: &mut SigCache| {
                    if let Some(i) = cx.idx(author) {
                        if cx.is_honest(i) && sc.ok(sig, &vote_digest(hash, round), author) {
                            boundary.entry((i, round)).or_default().entry(hash.clone()).or_insert(pos);
                        }
                    }
                };
                match frame.cons() {
                    Some(CMsg::Vote(v)) => note(&v.author, &v.hash, v.round, &v.signature, sc),
                    Some(CMsg::Propose(b)) => {
                        for (k, s) in &b.qc.votes {
                            note(k, &b.qc.hash, b.qc.round, s, sc);
                        }
                    }
                    Some(CMsg::Timeout(t)) => {
                        for (k, s) in &t.high_qc.votes {
                            note(k, &t.high_qc.hash, t.high_qc.round, s, sc);
                        }
                    }
                    _ => {}
                }
            }
            _ => {}
        }
    }
    for ((i, round), m) in &boundary {
        r.count("C03.boundary_votes", m.len() as u64);
        if m.len() > 1 {
            let ps: Vec<usize> = m.values().cloned().collect();
            r.violate(
                "C03",
                "two-signed-votes-one-round-on-wire",
                format!("honest node {} has validly signed votes for {} different blocks of round {}", i, m.len(), round),
                wit(cx, &ps),
            );
        }
        for (h, p) in m {
            if !hook_votes.contains(&(*i, *round, h.clone())) {
                r.violate(
                    "C03",
                    "signed-vote-without-vote-event",
                    format!("a vote of honest node {} for {} r{} is on the wire but Core never reported voting for it", i, short(h), round),
                    wit(cx, &[*p]),
                );
            }
        }
    }
    // (c) signing tap: every signature over a vote digest of a known block has a Core::Vote.
    let mut vote_digests: HashMap<Digest, (Digest, u64)> = HashMap::new();
    for (d, b) in &ix.blocks.blocks {
        vote_digests.insert(vote_digest(d, b.round), (d.clone(), b.round));
    }
    for (pos, ev) in cx.log.iter().enumerate() {
        if let Kind::Signed { signer, digest } = &ev.kind {
            r.count("C03.signatures_seen", 1);
            if let (Some(i), Some((h, round))) = (cx.idx(signer), vote_digests.get(digest)) {
                if cx.is_honest(i) && !hook_votes.contains(&(i, *round, h.clone())) {
                    r.violate(
                        "C03",
                        "signature-over-vote-without-vote-event",
                        format!("node {} signed a vote for {} r{} outside the voting path", i, short(h), round),
                        wit(cx, &[pos]),
                    );
                }
            }
        }
    }
    let _ = hook_timeouts;
    r
}

// ---------------------------------------------------------------------------------------------
// C04 (always-on part): invalid inputs have no effect, valid inputs are not rejected as invalid
pub fn input_valid(cx: &Ctx, sc: &mut SigCache, input: &Input) -> Option<bool> {
    let t = cx.topo;
    Some(match input {
        Input::Propose(b) => block_valid(t, sc, b),
        Input::Vote(v) => vote_valid(t, sc, v),
        Input::Timeout(to) => timeout_sig_valid(t, sc, to) && (is_genesis_qc(&to.high_qc) || qc_valid(t, sc, &to.high_qc).is_ok()),
        Input::TC(tc) => tc_valid(t, sc, tc).is_ok(),
        Input::Timer => return None,
    })
}

pub fn check_c04(cx: &Ctx, ix: &Index, sc: &mut SigCache) -> Report {
    let mut r = Report::default();
    for (node, positions) in &ix.core {
        if !cx.is_honest(*node) {
            continue;
        }
        let mut prev_state: Option<(u64, u64, u64, u64)> = Some((1, 0, 0, 0));
        // The outermost Begin of the current bracket (handle_vote can nest inside process_block).
        let mut cur: Option<(usize, bool)> = None; // (pos, valid)
        let mut effects: Vec<usize> = Vec::new();
        for p in positions {
            match &cx.log[*p].kind {
                Kind::Core(CE::Begin { input, .. }) => {
                    if cur.is_none() {
                        if let Some(v) = input_valid(cx, sc, input) {
                            cur = Some((*p, v));
                            if v {
                                r.count("C04.valid_inputs_handled", 1);
                            } else {
                                r.count("C04.invalid_inputs_handled", 1);
                                r.sit("C04:invalid_input_processed");
                            }
                        } else {
                            cur = Some((*p, true));
                        }
                    }
                }
                Kind::Core(CE::End { error, round, last_voted_round, last_committed_round, high_qc_round, .. }) => {
                    let state = (*round, *last_voted_round, *last_committed_round, *high_qc_round);
                    if let Some((bp, valid)) = cur {
                        if !valid {
                            let changed = prev_state.map_or(false, |s| s != state);
                            if changed || !effects.is_empty() {
                                let mut w = vec![bp];
                                w.extend(effects.iter().cloned());
                                w.push(*p);
                                r.violate(
                                    "C04",
                                    "invalid-message-had-effect",
                                    format!("node {}: an invalid message changed state or caused actions", node),
                                    wit(cx, &w),
                                );
                            }
                        } else if let Some(e) = error {
                            let rejected_as_invalid = e.contains("Invalid signature")
                                || e.contains("unknown authority")
                                || e.contains("without a quorum");
                            if rejected_as_invalid {
                                r.violate(
                                    "C04",
                                    "valid-message-rejected",
                                    format!("node {}: a valid message was rejected: {}", node, e),
                                    wit(cx, &[bp, *p]),
                                );
                            }
                        }
                    }
                    prev_state = Some(state);
                    cur = None;
                    effects.clear();
                }
                Kind::Core(CE::Vote { block, round, .. }) => {
                    // Whatever path a proposal took to the voting step (handler, payload-resumed,
                    // sync-resumed), it must be one that passes the independent validity check.
                    r.count("C04.voted_blocks_rechecked", 1);
                    if !crate::model::block_valid(cx.topo, sc, block) {
                        r.violate(
                            "C04",
                            "voted-for-invalid-proposal",
                            format!("node {} voted for a round-{} proposal whose signature or embedded certificates do not verify", node, round),
                            wit(cx, &[*p]),
                        );
                    }
                    effects.push(*p)
                }
                Kind::Core(CE::Timeout { .. })
                | Kind::Core(CE::Round { .. })
                | Kind::Core(CE::QC { .. })
                | Kind::Core(CE::TC { .. })
                | Kind::Core(CE::Commit { .. })
                | Kind::Core(CE::Make { .. })
                | Kind::Core(CE::Process { .. }) => effects.push(*p),
                _ => {}
            }
        }
    }
    r
}

// ---------------------------------------------------------------------------------------------
// Knowledge of a node: what has been delivered to it / assembled by it, maintained in log order.
#[derive(Default)]
struct Known {
    blocks: HashSet<Digest>,
    qcs: HashMap<(Digest, u64), ()>,
    qc_rounds: BTreeSet<u64>,
    tc_rounds: BTreeSet<u64>,
    votes: HashMap<(Digest, u64), Vec<PublicKey>>,
    timeouts: HashMap<u64, Vec<(PublicKey, u64)>>,
}

fn learn_qc(k: &mut Known, t: &Topo, sc: &mut SigCache, qc: &QC) {
    if is_genesis_qc(qc) {
        return;
    }
    if k.qcs.contains_key(&(qc.hash.clone(), qc.round)) {
        return;
    }
    if qc_valid(t, sc, qc).is_ok() {
        k.qcs.insert((qc.hash.clone(), qc.round), ());
        k.qc_rounds.insert(qc.round);
    }
}

fn learn_tc(k: &mut Known, t: &Topo, sc: &mut SigCache, tc: &TC) {
    if k.tc_rounds.contains(&tc.round) {
        return;
    }
    if tc_valid(t, sc, tc).is_ok() {
        k.tc_rounds.insert(tc.round);
    }
}

fn learn_frame(k: &mut Known, t: &Topo, sc: &mut SigCache, m: &CMsg) {
    match m {
        CMsg::Propose(b) => {
            k.blocks.insert(b.digest());
            learn_qc(k, t, sc, &b.qc);
            if let Some(tc) = &b.tc {
                learn_tc(k, t, sc, tc);
            }
        }
        CMsg::Vote(v) => {
            if vote_valid(t, sc, v) {
                let e = k.votes.entry((v.hash.clone(), v.round)).or_default();
                if !e.contains(&v.author) {
                    e.push(v.author);
                }
            }
        }
        CMsg::Timeout(to) => {
            learn_qc(k, t, sc, &to.high_qc);
            if timeout_sig_valid(t, sc, to) {
                k.timeouts.entry(to.round).or_default().push((to.author, to.high_qc.round));
            }
        }
        CMsg::TC(tc) => learn_tc(k, t, sc, tc),
        CMsg::Sync(..) => {}
    }
}

// ---------------------------------------------------------------------------------------------
// C05, C10, C19 (node-boundary part) share the "knowledge in log order" pass.
pub fn check_c05_c10_c19(cx: &Ctx, ix: &Index, sc: &mut SigCache) -> Report {
    let mut r = Report::default();
    let t = cx.topo;
    let q = t.quorum();
    let mut known: HashMap<usize, Known> = HashMap::new();
    let mut prev_round: HashMap<usize, u64> = HashMap::new();
    let mut max_voted_qc: HashMap<usize, (u64, usize)> = HashMap::new();
    let mut max_sent_qc: HashMap<usize, (u64, usize)> = HashMap::new();
    let mut assembled_qc: HashMap<usize, HashSet<(Digest, u64)>> = HashMap::new();
    let mut assembled_tc: HashMap<usize, HashSet<u64>> = HashMap::new();
    let mut own_votes: HashMap<usize, HashSet<(Digest, u64)>> = HashMap::new();
    let mut own_timeouts: HashMap<usize, HashSet<(u64, u64)>> = HashMap::new();
    for i in &cx.honest {
        known.insert(*i, Known::default());
    }
    for (pos, ev) in cx.log.iter().enumerate() {
        match &ev.kind {
            Kind::FrameIn { frame } => {
                if let Some(m) = frame.cons() {
                    if frame.dir == Dir::ToServer && frame.route.svc == SVC_CONSENSUS {
                        if let Some(k) = known.get_mut(&frame.route.dst) {
                            learn_frame(k, t, sc, m);
                        }
                    }
                }
            }
            Kind::FrameOut { frame, .. } => {
                // Own proposals count as known blocks; certificates sent are checked (C19).
                let i = frame.route.src;
                if !(cx.is_honest(i) && sent_by(frame, i)) {
                    continue;
                }
                let k = known.get_mut(&i).unwrap();
                let check_qc = |r: &mut Report, sc: &mut SigCache, k: &Known, qc: &QC, what: &str| {
                    if is_genesis_qc(qc) {
                        return;
                    }
                    r.count("C19.sent_certificates_checked", 1);
                    if let Err(e) = qc_valid(t, sc, qc) {
                        r.violate("C19", "sent-invalid-qc", format!("node {} sent an invalid QC inside {}: {}", i, what, e), wit(cx, &[pos]));
                    } else if !k.qcs.contains_key(&(qc.hash.clone(), qc.round)) {
                        r.violate(
                            "C19",
                            "sent-qc-of-unknown-origin",
                            format!("node {} sent QC ({}, r{}) inside {} that it neither assembled nor received", i, short(&qc.hash), qc.round, what),
                            wit(cx, &[pos]),
                        );
                    }
                };
                let check_tc = |r: &mut Report, sc: &mut SigCache, k: &Known, tc: &TC, what: &str| {
                    r.count("C19.sent_certificates_checked", 1);
                    if let Err(e) = tc_valid(t, sc, tc) {
                        r.violate("C19", "sent-invalid-tc", format!("node {} sent an invalid TC inside {}: {}", i, what, e), wit(cx, &[pos]));
                    } else if !k.tc_rounds.contains(&tc.round) {
                        r.violate(
                            "C19",
                            "sent-tc-of-unknown-origin",
                            format!("node {} sent TC r{} inside {} that it neither assembled nor received", i, tc.round, what),
                            wit(cx, &[pos]),
                        );
                    }
                };
                match frame.cons() {
                    Some(CMsg::Propose(b)) => {
                        if b.author == t.names[i] {
                            k.blocks.insert(b.digest());
                            let e = max_sent_qc.entry(i).or_insert((0, pos));
                            if b.qc.round > e.0 {
                                *e = (b.qc.round, pos);
                            }
                        }
                        check_qc(&mut r, sc, k, &b.qc, "a proposal");
                        if let Some(tc) = &b.tc {
                            check_tc(&mut r, sc, k, tc, "a proposal");
                        }
                    }
                    Some(CMsg::Timeout(to)) => {
                        if to.author == t.names[i] {
                            check_qc(&mut r, sc, k, &to.high_qc, "a timeout");
                        }
                    }
                    Some(CMsg::TC(tc)) => check_tc(&mut r, sc, k, tc, "a TC message"),
                    _ => {}
                }
            }
            Kind::Core(e) => {
                let i = match cx.idx(core_node(e)) {
                    Some(i) if cx.is_honest(i) => i,
                    _ => continue,
                };
                let k = known.get_mut(&i).unwrap();
                match e {
                    CE::Vote { hash, round, block: voted, .. } => {
                        own_votes.entry(i).or_default().insert((hash.clone(), *round));
                        if let Some(b) = Some(voted) {
                            let e = max_voted_qc.entry(i).or_insert((0, pos));
                            if b.qc.round > e.0 {
                                *e = (b.qc.round, pos);
                            }
                        }
                    }
                    CE::Make { qc, .. } => {
                        let e = max_sent_qc.entry(i).or_insert((0, pos));
                        if qc.round > e.0 {
                            *e = (qc.round, pos);
                        }
                    }
                    CE::Timeout { round, high_qc, .. } => {
                        own_timeouts.entry(i).or_default().insert((*round, high_qc.round));
                        r.count("C10.timeouts_checked", 1);
                        if let Some((m, p0)) = max_voted_qc.get(&i) {
                            if high_qc.round < *m {
                                r.violate(
                                    "C10",
                                    "timeout-high-qc-below-voted-qc",
                                    format!("node {} timed out in r{} with high_qc r{} after voting for a block with qc r{}", i, round, high_qc.round, m),
                                    wit(cx, &[*p0, pos]),
                                );
                            }
                        }
                        if let Some((m, p0)) = max_sent_qc.get(&i) {
                            if high_qc.round < *m {
                                r.violate(
                                    "C10",
                                    "timeout-high-qc-below-sent-qc",
                                    format!("node {} timed out in r{} with high_qc r{} after sending qc r{}", i, round, high_qc.round, m),
                                    wit(cx, &[*p0, pos]),
                                );
                            }
                        }
                        let e = max_sent_qc.entry(i).or_insert((0, pos));
                        if high_qc.round > e.0 {
                            *e = (high_qc.round, pos);
                        }
                        if high_qc.round > 0 {
                            r.sit("C10:timeout_with_non_genesis_qc");
                        }
                    }
                    CE::Round { from, to, .. } => {
                        r.count("C10.round_advances_checked", 1);
                        let prev = *prev_round.get(&i).unwrap_or(&1);
                        if *to <= *from {
                            r.violate("C10", "round-not-increasing", format!("node {} moved from round {} to {}", i, from, to), wit(cx, &[pos]));
                        }
                        if *from != prev {
                            r.violate("C10", "round-chain-broken", format!("node {} reports leaving round {} but was in {}", i, from, prev), wit(cx, &[pos]));
                        }
                        prev_round.insert(i, *to);
                        let need = to.saturating_sub(1);
                        let by_qc = k.qc_rounds.contains(&need);
                        let by_tc = k.tc_rounds.contains(&need);
                        if !(by_qc || by_tc) {
                            r.violate(
                                "C10",
                                "round-advance-without-certificate",
                                format!("node {} entered round {} without holding a QC or TC of round {}", i, to, need),
                                wit(cx, &[pos]),
                            );
                        }
                        if to.saturating_sub(*from) > 1 {
                            r.sit("C10:jump_gt_1");
                            r.count("C10.jumps_gt_1", 1);
                        }
                        if by_tc && !by_qc {
                            r.sit("C10:advance_by_tc");
                            r.count("C10.advances_by_tc", 1);
                        }
                    }
                    CE::QC { qc, .. } => {
                        r.count("C19.assembled_qcs_checked", 1);
                        let key = (qc.hash.clone(), qc.round);
                        if !assembled_qc.entry(i).or_default().insert(key.clone()) {
                            r.violate("C19", "qc-assembled-twice", format!("node {} assembled QC ({}, r{}) twice", i, short(&qc.hash), qc.round), wit(cx, &[pos]));
                        }
                        let mut authors: Vec<PublicKey> = k.votes.get(&key).cloned().unwrap_or_default();
                        if own_votes.get(&i).map_or(false, |s| s.contains(&key)) {
                            authors.push(t.names[i]);
                        }
                        let mut seen = HashSet::new();
                        let mut w = 0u64;
                        let mut w_before_last = 0u64;
                        let mut problem: Option<String> = None;
                        for (n, (a, _)) in qc.votes.iter().enumerate() {
                            if !seen.insert(*a) {
                                problem = Some("repeated signer".into());
                            }
                            if !authors.contains(a) {
                                problem = Some(format!("signer {} never sent this node a valid vote for it", crate::evlog::hex(&a.0)));
                            }
                            if n + 1 == qc.votes.len() {
                                w_before_last = w;
                            }
                            w += t.stake_of(a);
                        }
                        if w < q {
                            problem = Some(format!("stake {} below quorum {}", w, q));
                        } else if w_before_last >= q {
                            problem = Some(format!("quorum was already reached before the last vote ({} >= {})", w_before_last, q));
                        }
                        if let Err(e) = qc_valid(t, sc, qc) {
                            problem = Some(format!("does not verify: {}", e));
                        }
                        if let Some(pb) = problem {
                            r.violate("C19", "assembled-qc-unjustified", format!("node {} assembled QC ({}, r{}): {}", i, short(&qc.hash), qc.round, pb), wit(cx, &[pos]));
                        }
                        // C10: only a certificate that verifies counts as "holding a QC for the round".
                        if qc_valid(t, sc, qc).is_ok() {
                            k.qcs.insert(key, ());
                            k.qc_rounds.insert(qc.round);
                        }
                    }
                    CE::TC { tc, .. } => {
                        r.count("C19.assembled_tcs_checked", 1);
                        if !assembled_tc.entry(i).or_default().insert(tc.round) {
                            r.violate("C19", "tc-assembled-twice", format!("node {} assembled TC r{} twice", i, tc.round), wit(cx, &[pos]));
                        }
                        let delivered = k.timeouts.get(&tc.round).cloned().unwrap_or_default();
                        let mut seen = HashSet::new();
                        let mut w = 0u64;
                        let mut w_before_last = 0u64;
                        let mut problem: Option<String> = None;
                        for (n, (a, _, hq)) in tc.votes.iter().enumerate() {
                            if !seen.insert(*a) {
                                problem = Some("repeated signer".into());
                            }
                            let own = *a == t.names[i] && own_timeouts.get(&i).map_or(false, |s| s.contains(&(tc.round, *hq)));
                            if !own && !delivered.contains(&(*a, *hq)) {
                                problem = Some(format!("signer {} never sent this node a valid timeout (r{}, hqc {})", crate::evlog::hex(&a.0), tc.round, hq));
                            }
                            if n + 1 == tc.votes.len() {
                                w_before_last = w;
                            }
                            w += t.stake_of(a);
                        }
                        if w < q {
                            problem = Some(format!("stake {} below quorum {}", w, q));
                        } else if w_before_last >= q {
                            problem = Some(format!("quorum was already reached before the last timeout ({} >= {})", w_before_last, q));
                        }
                        if let Err(e) = tc_valid(t, sc, tc) {
                            problem = Some(format!("does not verify: {}", e));
                        }
                        if let Some(pb) = problem {
                            r.violate("C19", "assembled-tc-unjustified", format!("node {} assembled TC r{}: {}", i, tc.round, pb), wit(cx, &[pos]));
                        }
                        // C10: only a certificate that verifies counts as "holding a TC for the round".
                        if tc_valid(t, sc, tc).is_ok() {
                            k.tc_rounds.insert(tc.round);
                        }
                    }
                    CE::Commit { block, .. } => {
                        if block.round == 0 {
                            // Delivery of the genesis placeholder is C02's business.
                            continue;
                        }
                        r.count("C05.commits_checked", 1);
                        let d = block.digest();
                        let mut justified = false;
                        for ((h1, r1), _) in k.qcs.iter() {
                            if *r1 <= block.round {
                                continue;
                            }
                            let b1 = match ix.blocks.get(h1) {
                                Some(b) if k.blocks.contains(h1) && b.round == *r1 => b,
                                _ => continue,
                            };
                            let b0 = match ix.blocks.get(&b1.qc.hash) {
                                Some(b) if k.blocks.contains(&b1.qc.hash) => b,
                                _ => continue,
                            };
                            if b0.round + 1 != b1.round {
                                continue;
                            }
                            if ix.blocks.is_ancestor_or_self(&d, block.round, &b0.digest()) == Some(true) {
                                justified = true;
                                if b0.digest() != d {
                                    r.sit("C05:commit_as_ancestor");
                                }
                                break;
                            }
                        }
                        if !justified {
                            r.violate(
                                "C05",
                                "commit-without-certified-2-chain",
                                format!("node {} committed {} r{} without having been shown a certified consecutive-round 2-chain on top of it", i, short(&d), block.round),
                                wit(cx, &[pos]),
                            );
                        }
                    }
                    _ => {}
                }
            }
            _ => {}
        }
    }
    // Evidence: shapes of certified 2-chains each node was shown.
    for (_i, k) in &known {
        for ((h1, r1), _) in k.qcs.iter() {
            if let Some(b1) = ix.blocks.get(h1) {
                if let Some(b0) = ix.blocks.get(&b1.qc.hash) {
                    if b0.round + 1 == *r1 {
                        r.count("C05.certified_consecutive_2chains_shown", 1);
                    } else {
                        r.count("C05.certified_gap_2chains_shown", 1);
                        r.sit("C05:certified_2chain_with_gap_shown");
                    }
                }
            }
        }
    }
    r
}

// ---------------------------------------------------------------------------------------------
// C08 data availability
pub fn check_c08(cx: &Ctx, ix: &Index) -> Report {
    let mut r = Report::default();
    let mut written: HashMap<usize, HashSet<Vec<u8>>> = HashMap::new();
    for (pos, ev) in cx.log.iter().enumerate() {
        match &ev.kind {
            Kind::StoreWrite { store, key, .. } => {
                if let Some(i) = cx.store_of.get(store) {
                    written.entry(*i).or_default().insert(key.clone());
                }
            }
            Kind::Core(CE::Vote { node, block: voted, .. }) => {
                let i = match cx.idx(node) {
                    Some(i) if cx.is_honest(i) => i,
                    _ => continue,
                };
                if let Some(b) = Some(voted) {
                    if b.author == *node {
                        continue;
                    }
                    if !b.payload.is_empty() {
                        r.count("C08.votes_with_payload_checked", 1);
                        r.sit("C08:vote_with_payload");
                    }
                    for d in &b.payload {
                        if !written.get(&i).map_or(false, |s| s.contains(&d.to_vec())) {
                            r.violate(
                                "C08",
                                "vote-without-batch",
                                format!("node {} voted for block r{} while batch {} was not in its store", i, b.round, short(d)),
                                wit(cx, &[pos]),
                            );
                        }
                    }
                }
            }
            Kind::Core(CE::Commit { node, block }) => {
                let i = match cx.idx(node) {
                    Some(i) if cx.is_honest(i) => i,
                    _ => continue,
                };
                if !block.payload.is_empty() {
                    r.count("C08.commits_with_payload_checked", 1);
                    r.sit("C08:commit_with_payload");
                }
                for d in &block.payload {
                    if !written.get(&i).map_or(false, |s| s.contains(&d.to_vec())) {
                        r.violate(
                            "C08",
                            "commit-without-batch",
                            format!("node {} committed block r{} while batch {} was not in its store", i, block.round, short(d)),
                            wit(cx, &[pos]),
                        );
                    }
                }
            }
            _ => {}
        }
    }
    r
}

// ---------------------------------------------------------------------------------------------
// C06 (local obligation behind "a faulty leader costs a bounded number of timeouts"): an honest node
// that enters a round it leads *through a timeout certificate* (assembled by itself or received from a
// peer) proposes in that round: a `Make` for the round appears before the node leaves the round or
// times out in it. (Entering a led round through the QC carried by a peer's timeout is not covered:
// the repository does not propose there.) Without this, a schedule that always lets a peer's TC reach
// the next leader first turns one crashed leader into an endless sequence of view changes.
pub fn check_c06_leader_after_tc(cx: &Ctx, ix: &Index) -> Report {
    let mut r = Report::default();
    let t = cx.topo;
    for (&i, positions) in &ix.core {
        if !cx.is_honest(i) {
            continue;
        }
        // TC rounds seen in the current handler (received as input or assembled).
        let mut tcs_in_handler: Vec<u64> = Vec::new();
        let mut pending: Option<(u64, usize)> = None; // (round to propose in, position of the Round event)
        for &p in positions {
            match &cx.log[p].kind {
                Kind::Core(CE::Begin { input, .. }) => {
                    tcs_in_handler.clear();
                    if let consensus::verif::Input::TC(tc) = input {
                        tcs_in_handler.push(tc.round);
                    }
                }
                Kind::Core(CE::TC { tc, .. }) => tcs_in_handler.push(tc.round),
                Kind::Core(CE::Make { round, .. }) => {
                    if let Some((want, _)) = pending {
                        if *round == want {
                            r.count("C06.leader_entered_by_tc_and_proposed", 1);
                            pending = None;
                        }
                    }
                }
                Kind::Core(CE::Round { from, to, .. }) if to > from => {
                    if let Some((want, at)) = pending.take() {
                        r.violate(
                            "C06",
                            "leader-entered-round-by-tc-without-proposing",
                            format!("node {} entered round {} (which it leads) through a timeout certificate and left it for round {} without proposing", i, want, to),
                            vec![describe(&cx.log[at])],
                        );
                    }
                    if tcs_in_handler.iter().any(|x| x + 1 == *to) && t.leader(*to) == i {
                        pending = Some((*to, p));
                    }
                }
                Kind::Core(CE::Timeout { round, .. }) => {
                    if let Some((want, at)) = pending {
                        if *round == want {
                            pending = None;
                            r.violate(
                                "C06",
                                "leader-entered-round-by-tc-without-proposing",
                                format!("node {} entered round {} (which it leads) through a timeout certificate and timed out in it without having proposed", i, want),
                                vec![describe(&cx.log[at])],
                            );
                        }
                    }
                }
                _ => {}
            }
        }
    }
    r
}

// ---------------------------------------------------------------------------------------------
// C09 (node-boundary parts): votes only for the round's leader's blocks; no honest equivocation
pub fn check_c09(cx: &Ctx, ix: &Index, sc: &mut SigCache) -> Report {
    let mut r = Report::default();
    let t = cx.topo;
    for (pos, ev) in cx.log.iter().enumerate() {
        if let Kind::Core(CE::Vote { node, round, block: voted, .. }) = &ev.kind {
            let i = match cx.idx(node) {
                Some(i) if cx.is_honest(i) => i,
                _ => continue,
            };
            if let Some(b) = Some(voted) {
                r.count("C09.votes_checked", 1);
                if b.author != t.names[t.leader(*round)] {
                    r.violate(
                        "C09",
                        "vote-for-non-leader-block",
                        format!("node {} voted for a block of round {} authored by {:?} (leader is {})", i, round, t.index_of(&b.author), t.leader(*round)),
                        wit(cx, &[pos]),
                    );
                }
                if !block_sig_valid(t, sc, b) {
                    r.violate("C09", "vote-for-badly-signed-block", format!("node {} voted for a block whose signature does not verify", i), wit(cx, &[pos]));
                }
            }
        }
    }
    // Equivocation by honest authors: at most one validly signed block per (author, round) anywhere.
    let mut per: HashMap<(usize, u64), HashMap<Digest, ()>> = HashMap::new();
    for (d, b) in &ix.blocks.blocks {
        if let Some(i) = t.index_of(&b.author) {
            if cx.is_honest(i) && block_sig_valid(t, sc, b) {
                per.entry((i, b.round)).or_default().insert(d.clone(), ());
            }
        }
    }
    for ((i, round), m) in &per {
        r.count("C09.honest_proposals_seen", 1);
        if m.len() > 1 {
            let ps: Vec<usize> = cx
                .log
                .iter()
                .enumerate()
                .filter(|(_, e)| match &e.kind {
                    Kind::FrameOut { frame, .. } => matches!(frame.cons(), Some(CMsg::Propose(b)) if b.round == *round && b.author == t.names[*i]),
                    _ => false,
                })
                .map(|(p, _)| p)
                .take(6)
                .collect();
            r.violate(
                "C09",
                "honest-equivocation",
                format!("honest node {} signed {} different proposals for round {}", i, m.len(), round),
                wit(cx, &ps),
            );
        }
    }
    // Signing tap: two different block digests signed for one round.
    let mut signed_blocks: HashMap<(usize, u64), HashSet<Digest>> = HashMap::new();
    for ev in cx.log.iter() {
        if let Kind::Signed { signer, digest } = &ev.kind {
            if let (Some(i), Some(b)) = (t.index_of(signer), ix.blocks.get(digest)) {
                if b.author == *signer && cx.is_honest(i) {
                    signed_blocks.entry((i, b.round)).or_default().insert(digest.clone());
                }
            }
        }
    }
    for ((i, round), s) in &signed_blocks {
        if s.len() > 1 {
            r.violate("C09", "honest-equivocation", format!("honest node {} signed {} proposals for round {} (signing tap)", i, s.len(), round), vec![]);
        }
    }
    // Evidence: rounds in which a Make was issued while both a QC and a TC race was possible.
    for (_n, positions) in &ix.core {
        let mut makes: HashMap<u64, u64> = HashMap::new();
        for p in positions {
            if let Kind::Core(CE::Make { round, .. }) = &cx.log[*p].kind {
                *makes.entry(*round).or_default() += 1;
            }
        }
        r.count("C09.rounds_led", makes.len() as u64);
        if makes.values().any(|c| *c > 1) {
            // Two Make requests for one round reached the proposer: this IS equivocation material.
            r.sit("C09:two_make_requests_one_round");
        }
    }
    r
}

// ---------------------------------------------------------------------------------------------
// C19 extra: certificates of honest nodes are accepted by the other honest nodes
pub fn check_c19_acceptance(cx: &Ctx, ix: &Index, sc: &mut SigCache) -> Report {
    let mut r = Report::default();
    let t = cx.topo;
    for (node, positions) in &ix.core {
        if !cx.is_honest(*node) {
            continue;
        }
        let mut cur: Option<(usize, bool)> = None;
        for p in positions {
            match &cx.log[*p].kind {
                Kind::Core(CE::Begin { input, .. }) => {
                    if cur.is_none() {
                        // Genuinely from an honest node: names it as author AND carries its valid
                        // signature (anybody can put an honest node's name on a forged message).
                        let from_honest = match input {
                            Input::Propose(b) => t.index_of(&b.author).map_or(false, |a| cx.is_honest(a)) && block_sig_valid(t, sc, b),
                            Input::Timeout(to) => t.index_of(&to.author).map_or(false, |a| cx.is_honest(a)) && timeout_sig_valid(t, sc, to),
                            _ => false,
                        };
                        cur = Some((*p, from_honest));
                    }
                }
                Kind::Core(CE::End { error, .. }) => {
                    if let (Some((bp, true)), Some(e)) = (cur, error) {
                        if e.contains("Invalid signature") || e.contains("without a quorum") || e.contains("unknown authority") || e.contains("more than one vote") && false {
                            r.violate(
                                "C19",
                                "honest-certificate-rejected",
                                format!("node {} rejected a message of an honest node: {}", node, e),
                                wit(cx, &[bp, *p]),
                            );
                        }
                    }
                    if let Some((_, true)) = cur {
                        r.count("C19.honest_messages_accepted_checked", 1);
                    }
                    cur = None;
                }
                _ => {}
            }
        }
    }
    r
}

// ---------------------------------------------------------------------------------------------
// C07 (always-on parts): a helper reply is byte-identical to the block originally proposed under the
// requested digest and was asked for; blocks are stored parent-first.
pub fn check_c07_always(cx: &Ctx, ix: &Index) -> Report {
    let mut r = Report::default();
    // Every distinct serialisation seen under a digest outside helper replies (a block's digest binds
    // neither its TC nor its QC's round, so several variants can legitimately share a digest).
    let mut first_seen: HashMap<Digest, Vec<Vec<u8>>> = HashMap::new();
    let mut requests: HashMap<(usize, usize), Vec<Digest>> = HashMap::new();
    let mut store_order: HashMap<usize, HashMap<Vec<u8>, usize>> = HashMap::new();
    for (pos, ev) in cx.log.iter().enumerate() {
        match &ev.kind {
            Kind::FrameIn { frame } => {
                if let Some(CMsg::Sync(d, origin)) = frame.cons() {
                    // The helper answers to the address of the origin named in the request, whoever
                    // relayed the frame (a Byzantine node may replay an honest node's request).
                    let who = cx.topo.index_of(origin).unwrap_or(frame.route.src);
                    requests.entry((who, frame.route.dst)).or_default().push(d.clone());
                    r.count("C07.sync_requests_delivered", 1);
                }
            }
            Kind::FrameOut { frame, .. } => {
                if let Some(CMsg::Propose(b)) = frame.cons() {
                    let d = b.digest();
                    let bytes = bincode::serialize(b).unwrap_or_default();
                    let sender = frame.sender();
                    let is_author = cx.topo.index_of(&b.author) == Some(sender);
                    let is_reply = !is_author && cx.is_honest(sender);
                    if !is_reply {
                        let e = first_seen.entry(d.clone()).or_default();
                        if !e.contains(&bytes) {
                            e.push(bytes.clone());
                        }
                    }
                    match first_seen.get(&d) {
                        None => {
                            first_seen.insert(d.clone(), vec![bytes]);
                        }
                        Some(orig) => {
                            if is_reply {
                                r.count("C07.sync_replies_checked", 1);
                                if !orig.contains(&bytes) {
                                    r.violate(
                                        "C07",
                                        "sync-reply-differs-from-original",
                                        format!("node {} answered with a block whose bytes differ from every block proposed under digest {}", sender, short(&d)),
                                        wit(cx, &[pos]),
                                    );
                                }
                                let asked = requests.get(&(frame.receiver(), sender)).map_or(false, |v| v.contains(&d));
                                if !asked {
                                    r.violate(
                                        "C07",
                                        "sync-reply-not-requested",
                                        format!("node {} sent block {} to node {} which never asked it for that digest", sender, short(&d), frame.receiver()),
                                        wit(cx, &[pos]),
                                    );
                                }
                            }
                        }
                    }
                }
            }
            Kind::StoreWrite { store, key, .. } => {
                if let Some(i) = cx.store_of.get(store) {
                    store_order.entry(*i).or_default().entry(key.clone()).or_insert(pos);
                }
            }
            _ => {}
        }
    }
    for (i, order) in &store_order {
        for (key, pos) in order {
            if key.len() != 32 {
                continue;
            }
            let mut a = [0u8; 32];
            a.copy_from_slice(key);
            let d = Digest(a);
            if let Some(b) = ix.blocks.get(&d) {
                if b.qc.hash == Digest::default() {
                    continue;
                }
                r.count("C07.store_order_checked", 1);
                match order.get(&b.qc.hash.to_vec()) {
                    Some(pp) if pp < pos => {}
                    _ => r.violate(
                        "C07",
                        "block-stored-before-parent",
                        format!("node {} stored block r{} before its parent", i, b.round),
                        wit(cx, &[*pos]),
                    ),
                }
            }
        }
    }
    r
}

/// Run every always-on monitor.
pub fn check_all(cx: &Ctx) -> (Report, Index) {
    let ix = build_index(cx);
    let mut sc = SigCache::default();
    let mut r = Report::default();
    r.merge(check_c01(cx, &ix));
    r.merge(check_c02(cx, &ix));
    r.merge(check_c03(cx, &ix, &mut sc));
    r.merge(check_c04(cx, &ix, &mut sc));
    r.merge(check_c05_c10_c19(cx, &ix, &mut sc));
    r.merge(check_c08(cx, &ix));
    r.merge(check_c09(cx, &ix, &mut sc));
    r.merge(check_c19_acceptance(cx, &ix, &mut sc));
    r.merge(check_c07_always(cx, &ix));
    r.merge(check_c06_leader_after_tc(cx, &ix));
    r.count("sig_checks", sc.checks);
    // General run statistics.
    let mut kinds: BTreeMap<&'static str, u64> = BTreeMap::new();
    for ev in cx.log {
        let k = match &ev.kind {
            Kind::Connect { .. } => "ev.net.connect",
            Kind::FrameOut { .. } => "ev.net.frame_out",
            Kind::FrameIn { .. } => "ev.net.frame_in",
            Kind::Closed { .. } => "ev.net.closed",
            Kind::Core(CE::Begin { .. }) => "ev.core.begin",
            Kind::Core(CE::End { .. }) => "ev.core.end",
            Kind::Core(CE::Vote { .. }) => "ev.core.vote",
            Kind::Core(CE::Timeout { .. }) => "ev.core.timeout",
            Kind::Core(CE::Round { .. }) => "ev.core.round",
            Kind::Core(CE::QC { .. }) => "ev.core.qc",
            Kind::Core(CE::TC { .. }) => "ev.core.tc",
            Kind::Core(CE::Commit { .. }) => "ev.core.commit",
            Kind::Core(CE::Make { .. }) => "ev.core.make",
            Kind::Core(CE::Process { .. }) => "ev.core.process",
            Kind::StoreWrite { .. } => "ev.store.write",
            Kind::Signed { .. } => "ev.sig.signed",
            Kind::App { .. } => "ev.app.commit",
            Kind::Note { .. } => "ev.note",
            Kind::Panic { .. } => "ev.panic",
        };
        *kinds.entry(k).or_default() += 1;
    }
    for (k, v) in kinds {
        r.count(k, v);
    }
    (r, ix)
}

/// Fingerprint of a run: per-node sequences of (kind, round) of Core events plus commit rounds.
pub fn fingerprint(cx: &Ctx) -> String {
    use std::hash::{Hash, Hasher};
    let mut h = std::collections::hash_map::DefaultHasher::new();
    for ev in cx.log {
        match &ev.kind {
            Kind::Core(e) => {
                let i = cx.idx(core_node(e)).unwrap_or(999);
                match e {
                    CE::Vote { round, .. } => (i, 1u8, *round).hash(&mut h),
                    CE::Timeout { round, .. } => (i, 2u8, *round).hash(&mut h),
                    CE::Round { to, .. } => (i, 3u8, *to).hash(&mut h),
                    CE::QC { qc, .. } => (i, 4u8, qc.round).hash(&mut h),
                    CE::TC { tc, .. } => (i, 5u8, tc.round).hash(&mut h),
                    CE::Commit { block, .. } => (i, 6u8, block.round).hash(&mut h),
                    CE::Make { round, .. } => (i, 7u8, *round).hash(&mut h),
                    CE::Begin { input, .. } => match input {
                        Input::Propose(b) => (i, 8u8, b.round).hash(&mut h),
                        Input::Vote(v) => (i, 9u8, v.round).hash(&mut h),
                        Input::Timeout(t) => (i, 10u8, t.round).hash(&mut h),
                        Input::TC(t) => (i, 11u8, t.round).hash(&mut h),
                        Input::Timer => (i, 12u8, 0u64).hash(&mut h),
                    },
                    _ => {}
                }
            }
            _ => {}
        }
    }
    format!("{:016x}", h.finish())
}
