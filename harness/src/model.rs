// Independent oracles: hashing, signature / certificate checks done directly with ed25519-dalek,
// the voting-rule predicate, block map and ancestor relation.
use crate::world::Topo;
use consensus::verif::{Timeout, Vote};
use consensus::{Block, QC, TC};
use crypto::{Digest, Hash as _, PublicKey, Signature};
use ed25519_dalek::{Digest as _, Sha512};
use std::collections::HashMap;
use std::convert::TryInto;

pub fn sha512_256(data: &[u8]) -> Digest {
    Digest(Sha512::digest(data).as_slice()[..32].try_into().unwrap())
}

fn sig_bytes(sig: &Signature) -> Option<[u8; 64]> {
    // `Signature` keeps its two halves private; its bincode form is exactly the 64 bytes.
    let v = bincode::serialize(sig).ok()?;
    v.as_slice().try_into().ok()
}

/// Direct ed25519 check (strict), independent of `Signature::verify`.
pub fn sig_ok(sig: &Signature, digest: &Digest, key: &PublicKey) -> bool {
    let bytes = match sig_bytes(sig) {
        Some(b) => b,
        None => return false,
    };
    let s = match ed25519_dalek::Signature::from_bytes(&bytes) {
        Ok(s) => s,
        Err(_) => return false,
    };
    let k = match ed25519_dalek::PublicKey::from_bytes(&key.0) {
        Ok(k) => k,
        Err(_) => return false,
    };
    k.verify_strict(&digest.0, &s).is_ok()
}

/// Memoising signature checker (certificates are repeated in many frames).
#[derive(Default)]
pub struct SigCache {
    cache: HashMap<(PublicKey, Digest, [u8; 64]), bool>,
    pub checks: u64,
}

impl SigCache {
    pub fn ok(&mut self, sig: &Signature, digest: &Digest, key: &PublicKey) -> bool {
        let bytes = match sig_bytes(sig) {
            Some(b) => b,
            None => return false,
        };
        let k = (*key, digest.clone(), bytes);
        if let Some(v) = self.cache.get(&k) {
            return *v;
        }
        self.checks += 1;
        let v = sig_ok(sig, digest, key);
        self.cache.insert(k, v);
        v
    }
}

pub fn vote_digest(hash: &Digest, round: u64) -> Digest {
    // Obtained from the repository's own digest() so that no pre-image layout is re-implemented.
    QC { hash: hash.clone(), round, votes: Vec::new() }.digest()
}

pub fn timeout_digest(round: u64, high_qc_round: u64) -> Digest {
    Timeout {
        high_qc: QC { hash: Digest::default(), round: high_qc_round, votes: Vec::new() },
        round,
        author: PublicKey::default(),
        signature: Signature::default(),
    }
    .digest()
}

pub fn is_genesis_qc(qc: &QC) -> bool {
    qc.hash == Digest::default() && qc.round == 0
}

/// Independent certificate validity: distinct members, stake >= q, every signature strict-valid.
pub fn qc_valid(t: &Topo, sc: &mut SigCache, qc: &QC) -> Result<(), String> {
    let d = vote_digest(&qc.hash, qc.round);
    let mut seen = Vec::new();
    let mut w = 0u64;
    for (k, s) in &qc.votes {
        if seen.contains(k) {
            return Err("repeated signer".into());
        }
        seen.push(*k);
        let st = t.stake_of(k);
        if st == 0 {
            return Err("non-member or zero-stake signer".into());
        }
        w += st;
        if !sc.ok(s, &d, k) {
            return Err("bad signature".into());
        }
    }
    if w < t.quorum() {
        return Err(format!("stake {} below quorum {}", w, t.quorum()));
    }
    Ok(())
}

pub fn tc_valid(t: &Topo, sc: &mut SigCache, tc: &TC) -> Result<(), String> {
    let mut seen = Vec::new();
    let mut w = 0u64;
    for (k, s, hq) in &tc.votes {
        if seen.contains(k) {
            return Err("repeated signer".into());
        }
        seen.push(*k);
        let st = t.stake_of(k);
        if st == 0 {
            return Err("non-member or zero-stake signer".into());
        }
        w += st;
        if !sc.ok(s, &timeout_digest(tc.round, *hq), k) {
            return Err("bad signature".into());
        }
    }
    if w < t.quorum() {
        return Err(format!("stake {} below quorum {}", w, t.quorum()));
    }
    Ok(())
}

pub fn vote_valid(t: &Topo, sc: &mut SigCache, v: &Vote) -> bool {
    t.stake_of(&v.author) > 0 && sc.ok(&v.signature, &vote_digest(&v.hash, v.round), &v.author)
}

pub fn timeout_sig_valid(t: &Topo, sc: &mut SigCache, to: &Timeout) -> bool {
    t.stake_of(&to.author) > 0 && sc.ok(&to.signature, &timeout_digest(to.round, to.high_qc.round), &to.author)
}

pub fn block_sig_valid(t: &Topo, sc: &mut SigCache, b: &Block) -> bool {
    t.stake_of(&b.author) > 0 && sc.ok(&b.signature, &b.digest(), &b.author)
}

/// Fully valid proposal in the sense of C04 (signature, embedded certificates).
pub fn block_valid(t: &Topo, sc: &mut SigCache, b: &Block) -> bool {
    block_sig_valid(t, sc, b)
        && (is_genesis_qc(&b.qc) || qc_valid(t, sc, &b.qc).is_ok())
        && b.tc.as_ref().map_or(true, |tc| tc_valid(t, sc, tc).is_ok())
}

/// The voting rule of C03, as a predicate on the block alone.
#[derive(Debug, Clone, Copy, PartialEq, Eq)]
pub enum Extension {
    DirectQc,
    ViaTc,
    Neither,
}

pub fn extension(b: &Block) -> Extension {
    if b.qc.round >= b.round {
        return Extension::Neither;
    }
    if b.qc.round + 1 == b.round {
        return Extension::DirectQc;
    }
    if let Some(tc) = &b.tc {
        let max_hq = tc.votes.iter().map(|(_, _, r)| *r).max();
        if let Some(m) = max_hq {
            if tc.round + 1 == b.round && b.qc.round >= m {
                return Extension::ViaTc;
            }
        }
    }
    Extension::Neither
}

/// All blocks seen anywhere, by digest.
#[derive(Default)]
pub struct BlockMap {
    pub blocks: HashMap<Digest, Block>,
}

impl BlockMap {
    pub fn add(&mut self, b: &Block) {
        self.blocks.entry(b.digest()).or_insert_with(|| b.clone());
    }
    pub fn get(&self, d: &Digest) -> Option<&Block> {
        self.blocks.get(d)
    }
    /// Is `anc` equal to `d` or an ancestor of `d`? None if a link is unknown before deciding.
    pub fn is_ancestor_or_self(&self, anc: &Digest, anc_round: u64, d: &Digest) -> Option<bool> {
        let mut cur = d.clone();
        loop {
            if &cur == anc {
                return Some(true);
            }
            if cur == Digest::default() {
                return Some(false);
            }
            let b = self.blocks.get(&cur)?;
            if b.round <= anc_round {
                return Some(false);
            }
            cur = b.qc.hash.clone();
        }
    }
}

pub fn short(d: &Digest) -> String {
    crate::evlog::hex(&d.0)
}
