// Cluster scenarios with Byzantine authorities (classes S5-S8 of DESIGN.md 3.3): up to f stake is
// played by one omniscient adversary task that holds those keys, listens on their ports, reads the
// whole tap and co-ordinates with the network policy. Judged by C01 globally and by the always-on
// local monitors at every honest node.
use crate::cluster::{run_virtual, Cluster, ClusterCfg};
use crate::evlog::{self, CMsg, Kind};
use crate::monitors::{self, Ctx};
use crate::net;
use crate::result::RunResult;
use crate::world::{addr, port, Topo, SVC_CONSENSUS};
use crate::Params;
use bytes::Bytes;
use consensus::verif::{ConsensusMessage, Timeout, Vote};
use consensus::{Block, QC, TC};
use crypto::{Digest, Hash as _, Signature};
use futures::stream::StreamExt as _;
use futures::SinkExt as _;
use network::simnet::{Dir, TcpListener, TcpStream};
use rand::rngs::StdRng;
use rand::seq::SliceRandom as _;
use rand::{Rng as _, SeedableRng as _};
use serde_json::json;
use std::collections::{BTreeMap, HashMap, HashSet};
use std::sync::{Arc, Mutex};
use tokio::time::{sleep, Duration};
use tokio_util::codec::{Framed, LengthDelimitedCodec};

#[derive(Clone, Debug)]
pub struct Plan {
    pub class: String,
    pub n: usize,
    pub stakes: Vec<u32>,
    pub byz: Vec<usize>,
    pub timeout_ms: u64,
    pub hi_ms: u64,
    pub slow_prob: f64,
    pub slow_hi_ms: u64,
    pub duration_ms: u64,
    /// Probability that a Byzantine leader equivocates / withholds / proposes on a stale QC.
    pub p_equivocate: f64,
    pub p_withhold: f64,
    pub p_stale: f64,
    pub p_replay: f64,
    /// Honest nodes are split into two groups with slow cross traffic during these intervals.
    pub splits: Vec<(u64, u64)>,
}

fn pick_plan(class: &str, seed: u64, p: &Params) -> Plan {
    let mut rng = StdRng::seed_from_u64(seed.wrapping_mul(0x51_7c_c1_b7).wrapping_add(99));
    let n = p.get_u64("n").map(|x| x as usize).unwrap_or_else(|| rng.gen_range(4, 8));
    let stakes: Vec<u32> = if rng.gen_bool(0.6) { vec![1; n] } else { (0..n).map(|_| rng.gen_range(1, 4)).collect() };
    let total: u64 = stakes.iter().map(|x| *x as u64).sum();
    let f = (total - 1) / 3;
    // Byzantine set: as much stake as possible <= f.
    let mut idx: Vec<usize> = (0..n).collect();
    idx.shuffle(&mut rng);
    let mut byz = Vec::new();
    let mut used = 0u64;
    for i in idx {
        if used + stakes[i] as u64 <= f {
            used += stakes[i] as u64;
            byz.push(i);
        }
    }
    let timeout_ms = 400;
    let duration_ms = p.get_u64("duration_ms").unwrap_or(40_000);
    let (pe, pw, ps, pr) = match class {
        "s5" => (0.8, 0.1, 0.1, 0.02),
        "s6" => (0.1, 0.8, 0.2, 0.02),
        "s7" => (0.2, 0.2, 0.8, 0.02),
        "s8" => (0.3, 0.3, 0.3, 0.4),
        _ => (0.4, 0.4, 0.4, 0.1),
    };
    let mut splits = Vec::new();
    if rng.gen_bool(0.6) {
        let mut t = rng.gen_range(1_000, 5_000);
        for _ in 0..rng.gen_range(1, 4) {
            let len = timeout_ms * rng.gen_range(2, 15);
            if t + len + 5_000 > duration_ms {
                break;
            }
            splits.push((t, t + len));
            t += len + rng.gen_range(2_000, 8_000);
        }
    }
    Plan {
        class: class.into(),
        n,
        stakes,
        byz,
        timeout_ms,
        hi_ms: 30,
        slow_prob: [0.0, 0.05, 0.15][rng.gen_range(0, 3)],
        slow_hi_ms: timeout_ms * rng.gen_range(1, 4),
        duration_ms,
        p_equivocate: pe,
        p_withhold: pw,
        p_stale: ps,
        p_replay: pr,
        splits,
    }
}

struct Adv {
    topo: Arc<Topo>,
    byz: Vec<usize>,
    honest: Vec<usize>,
    rng: StdRng,
    plan: Plan,
    sinks: HashMap<(usize, usize), futures::stream::SplitSink<Framed<TcpStream, LengthDelimitedCodec>, Bytes>>,
    /// What the adversary knows (omniscient through the tap).
    blocks: HashMap<Digest, Block>,
    voted: HashSet<(usize, Digest)>,
    votes: HashMap<(Digest, u64), BTreeMap<usize, Signature>>,
    timeouts: HashMap<u64, BTreeMap<usize, Timeout>>,
    qcs: BTreeMap<u64, QC>,
    timed_out: HashSet<(usize, u64)>,
    proposed: HashSet<(usize, u64)>,
    frames: Vec<(usize, Bytes)>,
    cursor: usize,
    actions: BTreeMap<String, u64>,
    held: Vec<(u64, usize, usize, Bytes)>,
    pool: Vec<Digest>,
    tcs: BTreeMap<u64, TC>,
    honest_round: HashMap<usize, u64>,
    wild: HashSet<(usize, u64)>,
}

impl Adv {
    fn act(&mut self, k: &str) {
        *self.actions.entry(k.to_string()).or_default() += 1;
    }

    async fn send(&mut self, from: usize, to: usize, data: Bytes) {
        for _ in 0..2 {
            if !self.sinks.contains_key(&(from, to)) {
                match TcpStream::connect(addr(from, to, SVC_CONSENSUS)).await {
                    Ok(s) => {
                        let (sink, mut stream) = Framed::new(s, LengthDelimitedCodec::new()).split();
                        tokio::spawn(async move { while let Some(Ok(_)) = stream.next().await {} });
                        self.sinks.insert((from, to), sink);
                    }
                    Err(_) => return,
                }
            }
            let sink = self.sinks.get_mut(&(from, to)).unwrap();
            if sink.send(data.clone()).await.is_ok() {
                return;
            }
            self.sinks.remove(&(from, to));
        }
    }

    async fn send_msg(&mut self, from: usize, to: usize, m: &ConsensusMessage) {
        let data = Bytes::from(bincode::serialize(m).unwrap());
        self.send(from, to, data).await;
    }

    fn sign_vote(&self, x: usize, hash: &Digest, round: u64) -> Vote {
        let mut v = Vote { hash: hash.clone(), round, author: self.topo.names[x], signature: Signature::default() };
        v.signature = self.topo.sign(x, &v.digest());
        v
    }

    fn sign_timeout(&self, x: usize, round: u64, high_qc: QC) -> Timeout {
        let mut t = Timeout { high_qc, round, author: self.topo.names[x], signature: Signature::default() };
        t.signature = self.topo.sign(x, &t.digest());
        t
    }

    fn sign_block(&self, x: usize, round: u64, qc: QC, tc: Option<TC>, payload: Vec<Digest>) -> Block {
        let mut b = Block { qc, tc, author: self.topo.names[x], round, payload, signature: Signature::default() };
        b.signature = self.topo.sign(x, &b.digest());
        b
    }

    fn stake(&self, members: impl Iterator<Item = usize>) -> u64 {
        members.map(|i| self.topo.stakes[i] as u64).sum()
    }

    /// Digest the tap: everything any node wrote since the last call.
    fn observe(&mut self) {
        let evs = evlog::tail(self.cursor);
        self.cursor += evs.len();
        for ev in evs {
            if let Kind::Core(consensus::verif::Event::Round { node, to, .. }) = &ev.kind {
                if let Some(i) = self.topo.index_of(node) {
                    self.honest_round.insert(i, *to);
                }
            }
            if let Kind::FrameOut { frame, .. } = &ev.kind {
                if frame.dir != Dir::ToServer || frame.route.svc != SVC_CONSENSUS {
                    continue;
                }
                if self.honest.contains(&frame.route.src) && self.frames.len() < 5_000 {
                    self.frames.push((frame.route.src, frame.data.clone()));
                }
                match frame.cons() {
                    Some(CMsg::TC(tc)) => {
                        self.tcs.entry(tc.round).or_insert_with(|| tc.clone());
                    }
                    Some(CMsg::Propose(b)) => {
                        if let Some(tc) = &b.tc {
                            self.tcs.entry(tc.round).or_insert_with(|| tc.clone());
                        }
                        self.blocks.entry(b.digest()).or_insert_with(|| b.clone());
                        if !b.qc.votes.is_empty() {
                            self.qcs.entry(b.qc.round).or_insert_with(|| b.qc.clone());
                        }
                    }
                    Some(CMsg::Vote(v)) => {
                        if let Some(a) = self.topo.index_of(&v.author) {
                            // Votes are only visible to the adversary when addressed to one of its nodes
                            // (it reads its own sockets); being omniscient it takes all of them.
                            self.votes.entry((v.hash.clone(), v.round)).or_default().insert(a, v.signature.clone());
                        }
                    }
                    Some(CMsg::Timeout(t)) => {
                        if let Some(a) = self.topo.index_of(&t.author) {
                            self.timeouts.entry(t.round).or_default().entry(a).or_insert_with(|| t.clone());
                            if !t.high_qc.votes.is_empty() {
                                self.qcs.entry(t.high_qc.round).or_insert_with(|| t.high_qc.clone());
                            }
                        }
                    }
                    _ => {}
                }
            }
        }
    }

    async fn step(&mut self, now_ms: u64) {
        self.observe();
        let q = self.topo.quorum();
        // release held messages whose time has come
        let due: Vec<(u64, usize, usize, Bytes)> = self.held.iter().filter(|h| h.0 <= now_ms).cloned().collect();
        self.held.retain(|h| h.0 > now_ms);
        for (_, from, to, data) in due {
            self.act("late_cross_delivery");
            self.send(from, to, data).await;
        }
        // 1. vote for everything seen (double votes included)
        let blocks: Vec<Block> = self.blocks.values().cloned().collect();
        for b in &blocks {
            for x in self.byz.clone() {
                if self.voted.insert((x, b.digest())) {
                    let v = self.sign_vote(x, &b.digest(), b.round);
                    self.votes.entry((b.digest(), b.round)).or_default().insert(x, v.signature.clone());
                    let leader = self.topo.leader(b.round + 1);
                    if !self.byz.contains(&leader) {
                        self.act("byz_vote_sent");
                        self.send_msg(x, leader, &ConsensusMessage::Vote(v)).await;
                    }
                }
            }
        }
        // 2. timeouts with the lowest possible high-QC for every round some honest node timed out in
        let rounds: Vec<u64> = self.timeouts.keys().cloned().collect();
        for r in rounds {
            for x in self.byz.clone() {
                if self.timed_out.insert((x, r)) {
                    let t = self.sign_timeout(x, r, QC::genesis());
                    self.timeouts.entry(r).or_default().insert(x, t.clone());
                    for h in self.honest.clone() {
                        self.send_msg(x, h, &ConsensusMessage::Timeout(t.clone())).await;
                    }
                    self.act("byz_timeout_broadcast");
                }
            }
        }
        // 3. proposals by Byzantine leaders
        for y in self.byz.clone() {
            // (a) on a QC for the previous round
            let cands: Vec<((Digest, u64), Vec<usize>)> = self
                .votes
                .iter()
                .filter(|((_, r), _)| self.topo.leader(r + 1) == y && !self.proposed.contains(&(y, r + 1)))
                .map(|(k, m)| (k.clone(), m.keys().cloned().collect::<Vec<_>>()))
                .collect();
            for ((hash, round), voters) in cands {
                if self.stake(voters.iter().cloned()) < q {
                    continue;
                }
                let m = &self.votes[&(hash.clone(), round)];
                let mut votes = Vec::new();
                let mut w = 0;
                for (a, s) in m {
                    if w >= q {
                        break;
                    }
                    votes.push((self.topo.names[*a], s.clone()));
                    w += self.topo.stakes[*a] as u64;
                }
                let qc = QC { hash: hash.clone(), round, votes };
                self.qcs.entry(round).or_insert_with(|| qc.clone());
                self.proposed.insert((y, round + 1));
                self.propose(y, round + 1, qc, None, now_ms).await;
            }
            // (b) on a TC for the previous round
            let tcands: Vec<u64> = self.timeouts.keys().cloned().filter(|r| self.topo.leader(r + 1) == y && !self.proposed.contains(&(y, r + 1))).collect();
            for r in tcands {
                let m = self.timeouts[&r].clone();
                if self.stake(m.keys().cloned()) < q {
                    continue;
                }
                // choose the timeouts with the lowest high-QC rounds
                let mut entries: Vec<(usize, Timeout)> = m.into_iter().collect();
                entries.sort_by_key(|(_, t)| t.high_qc.round);
                let mut votes = Vec::new();
                let mut w = 0;
                let mut max_hq = 0;
                for (a, t) in &entries {
                    if w >= q {
                        break;
                    }
                    votes.push((self.topo.names[*a], t.signature.clone(), t.high_qc.round));
                    max_hq = max_hq.max(t.high_qc.round);
                    w += self.topo.stakes[*a] as u64;
                }
                let tc = TC { round: r, votes };
                self.tcs.entry(r).or_insert_with(|| tc.clone());
                self.proposed.insert((y, r + 1));
                // the stalest QC that the voting rule still allows, or (stale-QC attack) an older one
                let stale = self.rng.gen_bool(self.plan.p_stale);
                let pick = if stale { self.qcs.range(..=max_hq).next().map(|x| x.1.clone()) } else { self.qcs.range(max_hq..).next().map(|x| x.1.clone()) };
                let qc = pick.or_else(|| self.qcs.values().next_back().cloned()).unwrap_or_else(QC::genesis);
                if stale {
                    self.act("stale_qc_proposal_with_tc");
                }
                if stale && self.rng.gen_bool(0.5) {
                    // Falsified TC: genuine timeout signatures, but every reported high-QC round rewritten
                    // to 0, justifying a proposal on the oldest QC (or genesis). Signatures bind the reported
                    // round, so correct nodes reject it.
                    let mut forged = tc.clone();
                    for v in forged.votes.iter_mut() {
                        v.2 = 0;
                    }
                    let oldest = self.qcs.values().next().cloned().unwrap_or_else(QC::genesis);
                    let oldest = if self.rng.gen_bool(0.5) { QC::genesis() } else { oldest };
                    self.act("proposal_with_falsified_tc");
                    let b = self.sign_block(y, r + 1, oldest, Some(forged), vec![]);
                    self.blocks.entry(b.digest()).or_insert_with(|| b.clone());
                    let data = Bytes::from(bincode::serialize(&ConsensusMessage::Propose(b)).unwrap());
                    for h in self.honest.clone() {
                        self.send(y, h, data.clone()).await;
                    }
                }
                self.propose(y, r + 1, qc, Some(tc), now_ms).await;
            }
        }
        // 3c. "wild" proposals for the round most honest nodes are in, when a Byzantine authority leads
        // it: an old QC justified by a replayed old TC, by a TC of the wrong round, or by nothing.
        // Correct nodes vote for none of them (voting rule 2); a node that does can be led onto a fork.
        if !self.honest_round.is_empty() {
            let mut counts: HashMap<u64, usize> = HashMap::new();
            for r in self.honest_round.values() {
                *counts.entry(*r).or_default() += 1;
            }
            let target = counts.into_iter().max_by_key(|(r, c)| (*c, *r)).map(|x| x.0).unwrap_or(0);
            let y = self.topo.leader(target);
            if target > 3 && self.byz.contains(&y) && !self.wild.contains(&(y, target)) && self.rng.gen_bool(self.plan.p_stale.min(0.5)) {
                self.wild.insert((y, target));
                let old_qc = {
                    let c: Vec<QC> = self.qcs.range(..target.saturating_sub(1)).map(|x| x.1.clone()).collect();
                    c.choose(&mut self.rng).cloned().unwrap_or_else(QC::genesis)
                };
                let old_tc = {
                    let c: Vec<TC> = self.tcs.range(..target.saturating_sub(1)).map(|x| x.1.clone()).filter(|t| t.votes.iter().map(|v| v.2).max().unwrap_or(0) <= old_qc.round).collect();
                    c.choose(&mut self.rng).cloned()
                };
                let kind = if old_tc.is_some() { "wild_proposal_old_qc_replayed_old_tc" } else { "wild_proposal_old_qc_no_tc" };
                self.act(kind);
                let pl: Vec<Digest> = self.pool.iter().take(self.rng.gen_range(0, 2)).cloned().collect();
                let b = self.sign_block(y, target, old_qc, old_tc, pl);
                self.blocks.entry(b.digest()).or_insert_with(|| b.clone());
                let data = Bytes::from(bincode::serialize(&ConsensusMessage::Propose(b)).unwrap());
                for h in self.honest.clone() {
                    self.send(y, h, data.clone()).await;
                }
            }
        }
        // 4. replay
        if !self.frames.is_empty() && self.rng.gen_bool(self.plan.p_replay) {
            let (_, data) = self.frames.choose(&mut self.rng).unwrap().clone();
            let x = *self.byz.choose(&mut self.rng).unwrap();
            let to = *self.honest.choose(&mut self.rng).unwrap();
            self.act("replay");
            self.send(x, to, data).await;
        }
    }

    async fn propose(&mut self, y: usize, round: u64, qc: QC, tc: Option<TC>, now_ms: u64) {
        let mut honest = self.honest.clone();
        honest.shuffle(&mut self.rng);
        // Payload digests come from a small set of batches written into every honest store at start.
        let pool = self.pool.clone();
        let mk_payload = move |rng: &mut StdRng| -> Vec<Digest> {
            let k = rng.gen_range(0, pool.len() + 1);
            let mut v = pool.clone();
            v.shuffle(rng);
            v.truncate(k);
            v
        };
        let pl_a = mk_payload(&mut self.rng);
        let a = self.sign_block(y, round, qc.clone(), tc.clone(), pl_a);
        self.blocks.entry(a.digest()).or_insert_with(|| a.clone());
        let da = Bytes::from(bincode::serialize(&ConsensusMessage::Propose(a.clone())).unwrap());
        if self.rng.gen_bool(self.plan.p_equivocate) && honest.len() >= 2 {
            // a second block for the same round: it must differ in a field the digest binds; with
            // empty payloads that is the parent, so equivocate on an older QC when one exists
            let other_qc = if self.rng.gen_bool(0.3) { self.qcs.range(..qc.round).next_back().map(|x| x.1.clone()).unwrap_or_else(QC::genesis) } else { qc.clone() };
            let tc2 = tc.clone();
            let mut pl = mk_payload(&mut self.rng);
            if pl == a.payload && other_qc.hash == qc.hash {
                pl = if a.payload.is_empty() { self.pool.iter().take(1).cloned().collect() } else { vec![] };
            }
            let b = self.sign_block(y, round, other_qc, tc2, pl);
            if b.digest() != a.digest() {
                self.blocks.entry(b.digest()).or_insert_with(|| b.clone());
                let db = Bytes::from(bincode::serialize(&ConsensusMessage::Propose(b)).unwrap());
                let k = self.rng.gen_range(1, honest.len());
                self.act("equivocation");
                for (i, h) in honest.iter().enumerate() {
                    let (first, second) = if i < k { (da.clone(), db.clone()) } else { (db.clone(), da.clone()) };
                    self.send(y, *h, first).await;
                    if self.rng.gen_bool(0.5) {
                        let at = now_ms + self.rng.gen_range(1, 3 * self.plan.timeout_ms);
                        self.held.push((at, y, *h, second));
                    }
                }
                return;
            }
        }
        if self.rng.gen_bool(self.plan.p_withhold) && honest.len() >= 2 {
            let k = self.rng.gen_range(1, honest.len());
            self.act("withholding_proposal");
            for (i, h) in honest.iter().enumerate() {
                if i < k {
                    self.send(y, *h, da.clone()).await;
                } else {
                    let at = now_ms + self.rng.gen_range(self.plan.timeout_ms / 2, 3 * self.plan.timeout_ms);
                    self.held.push((at, y, *h, da.clone()));
                }
            }
            return;
        }
        self.act("plain_proposal");
        for h in honest {
            self.send(y, h, da.clone()).await;
        }
    }
}

pub fn execute(plan: &Plan, seed: u64) -> (Vec<evlog::Ev>, Arc<Topo>, Vec<usize>, HashMap<String, usize>, BTreeMap<String, u64>) {
    let plan = plan.clone();
    run_virtual(async move {
        evlog::begin();
        let mut cfg = ClusterCfg::new(plan.n, seed);
        cfg.stakes = plan.stakes.clone();
        cfg.timeout_ms = plan.timeout_ms;
        cfg.not_started = plan.byz.clone();
        cfg.sync_retry_ms = 1_000;
        // Byzantine listeners first (they acknowledge proposals like any receiver).
        for y in &plan.byz {
            let listener = TcpListener::bind(std::net::SocketAddr::from(([0, 0, 0, 0], port(*y, SVC_CONSENSUS)))).await.expect("bind");
            tokio::spawn(async move {
                loop {
                    let (socket, _) = match listener.accept().await {
                        Ok(x) => x,
                        Err(_) => return,
                    };
                    tokio::spawn(async move {
                        let mut framed = Framed::new(socket, LengthDelimitedCodec::new());
                        while let Some(Ok(frame)) = framed.next().await {
                            if let Ok(ConsensusMessage::Propose(_)) = bincode::deserialize::<ConsensusMessage>(&frame) {
                                let _ = framed.send(Bytes::from("Ack")).await;
                            }
                        }
                    });
                }
            });
        }
        let mut cluster = Cluster::start(cfg).await;
        let honest = cluster.started();
        // A few batches every honest node holds, so that proposals with payloads can be voted.
        let pool: Vec<Digest> = (0..4u8).map(|k| Digest([k + 1; 32])).collect();
        for h in cluster.nodes.iter_mut() {
            if let Some(st) = h.store.as_mut() {
                for d in &pool {
                    st.write(d.to_vec(), b"batch".to_vec()).await;
                }
            }
        }
        {
            let mut c = cluster.ctl.lock().unwrap();
            c.lo_ms = 1;
            c.hi_ms = plan.hi_ms;
            c.slow_prob = plan.slow_prob;
            c.slow_lo_ms = plan.hi_ms;
            c.slow_hi_ms = plan.slow_hi_ms;
        }
        let mut adv = Adv {
            topo: cluster.topo.clone(),
            byz: plan.byz.clone(),
            honest: honest.clone(),
            rng: StdRng::seed_from_u64(seed ^ 0xbad),
            plan: plan.clone(),
            sinks: HashMap::new(),
            blocks: HashMap::new(),
            voted: HashSet::new(),
            votes: HashMap::new(),
            timeouts: HashMap::new(),
            qcs: BTreeMap::new(),
            timed_out: HashSet::new(),
            proposed: HashSet::new(),
            frames: Vec::new(),
            cursor: 0,
            actions: BTreeMap::new(),
            held: Vec::new(),
            pool: pool.clone(),
            tcs: BTreeMap::new(),
            honest_round: HashMap::new(),
            wild: HashSet::new(),
        };
        // honest groups for the split intervals
        let mut groups = honest.clone();
        groups.shuffle(&mut adv.rng);
        let ga: Vec<usize> = groups[..groups.len() / 2].to_vec();
        let gb: Vec<usize> = groups[groups.len() / 2..].to_vec();
        let split_state = Arc::new(Mutex::new(false));
        {
            let mut c = cluster.ctl.lock().unwrap();
            let (ga2, gb2, st) = (ga.clone(), gb.clone(), split_state.clone());
            let slow = 3 * plan.timeout_ms;
            c.frame_hook = Some(Box::new(move |ctx, rng| {
                if *st.lock().unwrap() {
                    let (s, r) = (ctx.sender(), ctx.receiver());
                    if (ga2.contains(&s) && gb2.contains(&r)) || (gb2.contains(&s) && ga2.contains(&r)) {
                        return Some(network::simnet::FrameDecision::Deliver { delay_ms: rng.gen_range(slow / 2, slow) });
                    }
                }
                None
            }));
        }
        let mut now = 0u64;
        let tick = 5u64;
        if plan.byz.is_empty() {
            sleep(Duration::from_millis(plan.duration_ms)).await;
        } else {
            while now < plan.duration_ms {
                sleep(Duration::from_millis(tick)).await;
                now += tick;
                let in_split = plan.splits.iter().any(|(a, b)| now >= *a && now < *b);
                *split_state.lock().unwrap() = in_split;
                adv.step(now).await;
            }
        }
        let store_of: HashMap<String, usize> = cluster.nodes.iter().map(|h| (h.store_path.clone(), h.idx)).collect();
        let topo = cluster.topo.clone();
        let actions = adv.actions.clone();
        let log = evlog::end();
        drop(adv);
        drop(cluster);
        (log, topo, honest, store_of, actions)
    })
}

pub fn run(class: &str, seed: u64, p: &Params) -> RunResult {
    let t0 = std::time::Instant::now();
    let plan = pick_plan(class, seed, p);
    let (log, topo, honest, store_of, actions) = execute(&plan, seed);
    let ctx = Ctx { topo: &topo, honest: honest.clone(), store_of, log: &log };
    let (mut report, _ix) = monitors::check_all(&ctx);
    for (k, v) in &actions {
        report.count(&format!("C01.adv.{}", k), *v);
    }
    let byz_actions: u64 = actions.iter().filter(|(k, _)| *k != "plain_proposal").map(|(_, v)| *v).sum();
    let view_changes = report.counters.get("ev.core.tc").cloned().unwrap_or(0);
    let commits = report.counters.get("C01.distinct_committed_blocks").cloned().unwrap_or(0);
    if byz_actions > 0 && view_changes > 0 && commits >= 2 {
        report.sit("C01:byzantine_actions_view_change_and_commits");
    }
    if report.counters.get("C01.fork_points").cloned().unwrap_or(0) > 0 {
        report.sit("C01:forks_in_block_tree");
    }
    let fingerprint = monitors::fingerprint(&ctx);
    for (loc, msg, th) in evlog::take_panics() {
        report.violate("C15", format!("panic@{}", loc), format!("panic in thread {}: {}", th, msg), vec![]);
    }
    if std::env::var("HSV_DUMP").is_ok() {
        for ev in &log {
            eprintln!("{}", monitors::describe(ev));
        }
    }
    let commits_head: Vec<u64> = log
        .iter()
        .filter_map(|e| match &e.kind {
            Kind::App { node, block } if *node == honest[0] => Some(block.round),
            _ => None,
        })
        .take(40)
        .collect();
    let _ = net::heal_all;
    RunResult {
        workload: "byz".into(),
        class: class.into(),
        seed,
        params: json!({"n": plan.n, "stakes": plan.stakes, "byzantine": plan.byz}),
        report,
        fingerprint,
        wall_ms: t0.elapsed().as_millis() as u64,
        virtual_ms: plan.duration_ms,
        sample: json!({"plan": format!("{:?}", plan), "adversary_actions": actions, "honest_node": honest[0], "committed_rounds_head": commits_head}),
        cases: 0,
        classes: Vec::new(),
    }
}
