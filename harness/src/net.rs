// Network policies: random delays, heavy-tail (pre-GST) delays, partitions, isolation, and a
// custom per-frame override used by scripted scenarios and fault enumeration.
use crate::world::{decode, Route};
use network::simnet::{ConnInfo, ConnectDecision, Dir, FrameDecision, Policy};
use rand::rngs::StdRng;
use rand::{Rng as _, SeedableRng as _};
use std::collections::HashSet;
use std::net::SocketAddr;
use std::sync::{Arc, Mutex};

pub struct FrameCtx<'a> {
    pub conn: u64,
    pub route: Route,
    pub dir: Dir,
    pub idx: u64,
    pub frame: &'a [u8],
    pub raw: bool,
}

impl<'a> FrameCtx<'a> {
    pub fn sender(&self) -> usize {
        if self.dir == Dir::ToServer { self.route.src } else { self.route.dst }
    }
    pub fn receiver(&self) -> usize {
        if self.dir == Dir::ToServer { self.route.dst } else { self.route.src }
    }
}

pub type FrameHook = Box<dyn FnMut(&FrameCtx, &mut StdRng) -> Option<FrameDecision> + Send>;
pub type ConnectHook = Box<dyn FnMut(&Route, u64, &mut StdRng) -> Option<ConnectDecision> + Send>;

pub struct NetCtl {
    pub rng: StdRng,
    pub lo_ms: u64,
    pub hi_ms: u64,
    /// With this probability a frame gets a delay from [slow_lo, slow_hi] instead.
    pub slow_prob: f64,
    pub slow_lo_ms: u64,
    pub slow_hi_ms: u64,
    /// Directed pairs (a, b): a cannot reach b (connects refused, frames cut).
    pub blocked: HashSet<(usize, usize)>,
    /// Nodes cut off from everybody.
    pub isolated: HashSet<usize>,
    pub frame_hook: Option<FrameHook>,
    pub connect_hook: Option<ConnectHook>,
    pub frames: u64,
    pub cuts: u64,
    pub refused: u64,
    pub max_delay_ms: u64,
}

impl NetCtl {
    pub fn new(seed: u64) -> Self {
        Self {
            rng: StdRng::seed_from_u64(seed ^ 0x6e65_7400),
            lo_ms: 1,
            hi_ms: 20,
            slow_prob: 0.0,
            slow_lo_ms: 0,
            slow_hi_ms: 0,
            blocked: HashSet::new(),
            isolated: HashSet::new(),
            frame_hook: None,
            connect_hook: None,
            frames: 0,
            cuts: 0,
            refused: 0,
            max_delay_ms: 0,
        }
    }

    fn unreachable(&self, a: usize, b: usize) -> bool {
        self.isolated.contains(&a) || self.isolated.contains(&b) || self.blocked.contains(&(a, b))
    }

    pub fn sample_delay(&mut self) -> u64 {
        let d = if self.slow_prob > 0.0 && self.rng.gen_bool(self.slow_prob) {
            self.rng.gen_range(self.slow_lo_ms, self.slow_hi_ms.max(self.slow_lo_ms + 1))
        } else {
            self.rng.gen_range(self.lo_ms, self.hi_ms.max(self.lo_ms + 1))
        };
        self.max_delay_ms = self.max_delay_ms.max(d);
        d
    }
}

pub type Ctl = Arc<Mutex<NetCtl>>;

pub struct CtlPolicy(pub Ctl);

impl Policy for CtlPolicy {
    fn on_connect(&mut self, dialled: SocketAddr, conn: u64) -> ConnectDecision {
        let mut c = self.0.lock().unwrap_or_else(|e| e.into_inner());
        let c = &mut *c;
        let route = match decode(&dialled) {
            Some(r) => r,
            None => return ConnectDecision::Accept { latency_ms: 1 },
        };
        if let Some(h) = c.connect_hook.as_mut() {
            if let Some(d) = h(&route, conn, &mut c.rng) {
                return d;
            }
        }
        if c.unreachable(route.src, route.dst) {
            c.refused += 1;
            return ConnectDecision::Refuse;
        }
        let d = c.rng.gen_range(c.lo_ms, c.hi_ms.max(c.lo_ms + 1));
        ConnectDecision::Accept { latency_ms: d }
    }

    fn on_frame(&mut self, conn: &ConnInfo, dir: Dir, idx: u64, frame: &[u8], raw: bool) -> FrameDecision {
        let mut c = self.0.lock().unwrap_or_else(|e| e.into_inner());
        let c = &mut *c;
        c.frames += 1;
        let route = match decode(&conn.dialled) {
            Some(r) => r,
            None => return FrameDecision::Deliver { delay_ms: 1 },
        };
        let ctx = FrameCtx { conn: conn.id, route, dir, idx, frame, raw };
        if let Some(h) = c.frame_hook.as_mut() {
            if let Some(d) = h(&ctx, &mut c.rng) {
                if !matches!(d, FrameDecision::Deliver { .. }) {
                    c.cuts += 1;
                }
                return d;
            }
        }
        if c.unreachable(ctx.sender(), ctx.receiver()) {
            c.cuts += 1;
            return FrameDecision::CutBefore;
        }
        FrameDecision::Deliver { delay_ms: c.sample_delay() }
    }
}

pub fn install(seed: u64) -> Ctl {
    let ctl = Arc::new(Mutex::new(NetCtl::new(seed)));
    network::simnet::set_policy(Box::new(CtlPolicy(ctl.clone())));
    ctl
}

/// Cut `node` off: refuse its connects / connects to it and reset its open connections.
pub fn isolate(ctl: &Ctl, node: usize) {
    ctl.lock().unwrap().isolated.insert(node);
    network::simnet::reset_connections(|c| match decode(&c.dialled) {
        Some(r) => r.src == node || r.dst == node,
        None => false,
    });
}

pub fn heal(ctl: &Ctl, node: usize) {
    ctl.lock().unwrap().isolated.remove(&node);
}

/// Split into two sides that cannot talk to each other.
pub fn partition(ctl: &Ctl, a: &[usize], b: &[usize]) {
    {
        let mut c = ctl.lock().unwrap();
        for x in a {
            for y in b {
                c.blocked.insert((*x, *y));
                c.blocked.insert((*y, *x));
            }
        }
    }
    let (a, b) = (a.to_vec(), b.to_vec());
    network::simnet::reset_connections(|c| match decode(&c.dialled) {
        Some(r) => (a.contains(&r.src) && b.contains(&r.dst)) || (b.contains(&r.src) && a.contains(&r.dst)),
        None => false,
    });
}

pub fn heal_all(ctl: &Ctl) {
    let mut c = ctl.lock().unwrap();
    c.blocked.clear();
    c.isolated.clear();
}
