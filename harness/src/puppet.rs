// Engine M2: one real node R; the harness plays all other authorities ("puppets") with their
// real keys. Puppets listen on their consensus ports (acknowledging proposals like a real
// receiver), dial R's consensus port, and can show R any validly signed history, in lock-step.
use crate::cluster::{Cluster, ClusterCfg, NodeHandle};
use crate::evlog;
use crate::net::{self, Ctl};
use crate::world::{addr, port, Scratch, Topo, SVC_CONSENSUS};
use bytes::Bytes;
use consensus::verif::{ConsensusMessage, Timeout, Vote};
use consensus::{Block, QC, TC};
use crypto::{Digest, Hash as _, PublicKey, Signature};
use futures::stream::{SplitSink, StreamExt as _};
use futures::SinkExt as _;
use network::simnet::{TcpListener, TcpStream};
use rand::rngs::StdRng;
use rand::seq::SliceRandom as _;
use rand::Rng as _;
use std::collections::{HashMap, HashSet, VecDeque};
use std::sync::{Arc, Mutex};
use tokio::time::{sleep, Duration};
use tokio_util::codec::{Framed, LengthDelimitedCodec};

pub type Inbox = Arc<Mutex<VecDeque<(usize, ConsensusMessage)>>>;

pub struct Puppets {
    pub topo: Arc<Topo>,
    pub r: usize,
    pub ctl: Ctl,
    pub scratch: Scratch,
    pub node: NodeHandle,
    pub timeout_ms: u64,
    inbox: Inbox,
    /// Frames R's mempool sent to the puppets' mempool ports.
    pub mp_inbox: Arc<Mutex<VecDeque<(usize, Bytes)>>>,
    mp_sinks: HashMap<(usize, u8), SplitSink<Framed<TcpStream, LengthDelimitedCodec>, Bytes>>,
    pub full_node: bool,
    /// Puppets that do not acknowledge / answer (listener keeps reading).
    pub mute: Arc<Mutex<HashSet<usize>>>,
    sinks: HashMap<usize, SplitSink<Framed<TcpStream, LengthDelimitedCodec>, Bytes>>,
    /// Everything R has sent so far, by kind.
    pub r_blocks: Vec<Block>,
    pub r_votes: Vec<Vote>,
    pub r_timeouts: Vec<Timeout>,
    pub r_tcs: Vec<TC>,
    pub r_syncs: Vec<(usize, Digest)>,
    /// Blocks known to the harness (own creations and R's proposals).
    pub blocks: HashMap<Digest, Block>,
    /// Blocks for which the harness has ever produced a QC (premise tracking for C02 in puppet mode).
    pub certified: HashSet<Digest>,
    pub sent: u64,
}

pub fn puppets_of(topo: &Topo, r: usize) -> Vec<usize> {
    (0..topo.n).filter(|i| *i != r).collect()
}

impl Puppets {
    pub async fn start(n: usize, stakes: Vec<u32>, r: usize, seed: u64, timeout_ms: u64, sync_retry_ms: u64) -> Self {
        Self::start_mode(n, stakes, r, seed, timeout_ms, sync_retry_ms, false).await
    }

    /// `full_node`: R is a real `Node::new` (mempool + consensus on one store); the puppets then also
    /// listen on their mempool ports, acknowledging every frame like a real receiver.
    pub async fn start_mode(n: usize, stakes: Vec<u32>, r: usize, seed: u64, timeout_ms: u64, sync_retry_ms: u64, full_node: bool) -> Self {
        let mut cfg = ClusterCfg::new(n, seed);
        cfg.stakes = stakes;
        cfg.timeout_ms = timeout_ms;
        cfg.sync_retry_ms = sync_retry_ms;
        cfg.not_started = (0..n).filter(|i| *i != r).collect();
        cfg.full_node = full_node;
        cfg.batch_size = 200;
        cfg.max_batch_delay = 20;
        let topo = Arc::new(Topo::new(n, cfg.stakes.clone(), seed));
        let ctl = net::install(seed);
        {
            let mut c = ctl.lock().unwrap();
            c.lo_ms = 1;
            c.hi_ms = 1;
        }
        let scratch = Scratch::new("puppet");
        let inbox: Inbox = Arc::new(Mutex::new(VecDeque::new()));
        let mute = Arc::new(Mutex::new(HashSet::new()));
        for j in puppets_of(&topo, r) {
            let listener = TcpListener::bind(std::net::SocketAddr::from(([0, 0, 0, 0], port(j, SVC_CONSENSUS))))
                .await
                .expect("puppet bind");
            let inbox = inbox.clone();
            let mute = mute.clone();
            tokio::spawn(async move {
                loop {
                    let (socket, _) = match listener.accept().await {
                        Ok(x) => x,
                        Err(_) => return,
                    };
                    let inbox = inbox.clone();
                    let mute = mute.clone();
                    tokio::spawn(async move {
                        let mut framed = Framed::new(socket, LengthDelimitedCodec::new());
                        while let Some(Ok(frame)) = framed.next().await {
                            let msg: Result<ConsensusMessage, _> = bincode::deserialize(&frame);
                            if let Ok(msg) = msg {
                                let is_propose = matches!(msg, ConsensusMessage::Propose(_));
                                inbox.lock().unwrap().push_back((j, msg));
                                if is_propose && !mute.lock().unwrap().contains(&j) {
                                    let _ = framed.send(Bytes::from("Ack")).await;
                                }
                            }
                        }
                    });
                }
            });
        }
        let mp_inbox: Arc<Mutex<VecDeque<(usize, Bytes)>>> = Arc::new(Mutex::new(VecDeque::new()));
        if full_node {
            for j in puppets_of(&topo, r) {
                let listener = TcpListener::bind(std::net::SocketAddr::from(([0, 0, 0, 0], port(j, crate::world::SVC_MEMPOOL))))
                    .await
                    .expect("puppet mempool bind");
                let mp_inbox = mp_inbox.clone();
                tokio::spawn(async move {
                    loop {
                        let (socket, _) = match listener.accept().await {
                            Ok(x) => x,
                            Err(_) => return,
                        };
                        let mp_inbox = mp_inbox.clone();
                        tokio::spawn(async move {
                            let mut framed = Framed::new(socket, LengthDelimitedCodec::new());
                            while let Some(Ok(frame)) = framed.next().await {
                                mp_inbox.lock().unwrap().push_back((j, frame.freeze()));
                                let _ = framed.send(Bytes::from("Ack")).await;
                            }
                        });
                    }
                });
            }
        }
        let node = Cluster::start_node(&topo, &cfg, &scratch, r).await;
        if !full_node {
            Cluster::spawn_feeder(std::slice::from_ref(&node), seed);
        }
        let mut blocks = HashMap::new();
        blocks.insert(Digest::default(), Block::genesis());
        Self {
            topo,
            r,
            ctl,
            scratch,
            node,
            timeout_ms,
            inbox,
            mp_inbox,
            mp_sinks: HashMap::new(),
            full_node,
            mute,
            sinks: HashMap::new(),
            r_blocks: Vec::new(),
            r_votes: Vec::new(),
            r_timeouts: Vec::new(),
            r_tcs: Vec::new(),
            r_syncs: Vec::new(),
            blocks,
            certified: HashSet::new(),
            sent: 0,
        }
    }

    pub fn puppets(&self) -> Vec<usize> {
        puppets_of(&self.topo, self.r)
    }

    pub fn leader(&self, round: u64) -> usize {
        self.topo.leader(round)
    }

    pub fn name(&self, i: usize) -> PublicKey {
        self.topo.names[i]
    }

    /// Send raw bytes as one frame from puppet `from` to R's consensus port.
    pub async fn send_raw(&mut self, from: usize, data: Bytes) {
        for _attempt in 0..2 {
            if !self.sinks.contains_key(&from) {
                match TcpStream::connect(addr(from, self.r, SVC_CONSENSUS)).await {
                    Ok(s) => {
                        let (sink, mut stream) = Framed::new(s, LengthDelimitedCodec::builder().max_frame_length(64 * 1024 * 1024).new_codec()).split();
                        tokio::spawn(async move { while let Some(Ok(_)) = stream.next().await {} });
                        self.sinks.insert(from, sink);
                    }
                    Err(_) => return,
                }
            }
            let sink = self.sinks.get_mut(&from).unwrap();
            match sink.send(data.clone()).await {
                Ok(()) => {
                    self.sent += 1;
                    return;
                }
                Err(_) => {
                    self.sinks.remove(&from);
                }
            }
        }
    }

    /// Send one frame from actor `from` to service `svc` of R (persistent connection per (from, svc)).
    pub async fn send_to(&mut self, from: usize, svc: u8, data: Bytes) -> bool {
        if svc == SVC_CONSENSUS && from < self.topo.n {
            self.send_raw(from, data).await;
            return true;
        }
        for _attempt in 0..2 {
            if !self.mp_sinks.contains_key(&(from, svc)) {
                match TcpStream::connect(addr(from, self.r, svc)).await {
                    Ok(s) => {
                        let (sink, mut stream) = Framed::new(s, LengthDelimitedCodec::builder().max_frame_length(64 * 1024 * 1024).new_codec()).split();
                        tokio::spawn(async move { while let Some(Ok(_)) = stream.next().await {} });
                        self.mp_sinks.insert((from, svc), sink);
                    }
                    Err(_) => return false,
                }
            }
            let sink = self.mp_sinks.get_mut(&(from, svc)).unwrap();
            match sink.send(data.clone()).await {
                Ok(()) => {
                    self.sent += 1;
                    return true;
                }
                Err(_) => {
                    self.mp_sinks.remove(&(from, svc));
                }
            }
        }
        false
    }

    /// Write raw bytes (no framing by the harness) on a fresh connection to service `svc` of R.
    pub async fn send_unframed(&mut self, from: usize, svc: u8, bytes: Vec<u8>) -> bool {
        use tokio::io::AsyncWriteExt as _;
        match TcpStream::connect(addr(from, self.r, svc)).await {
            Ok(mut s) => {
                s.set_raw(true);
                let ok = s.write_all(&bytes).await.is_ok();
                // keep the connection open for a moment so that the bytes are read
                tokio::spawn(async move {
                    sleep(Duration::from_millis(50)).await;
                    drop(s);
                });
                ok
            }
            Err(_) => false,
        }
    }

    /// Make a batch available in R's store: directly (consensus-only R) or by sending it to R's
    /// mempool port as a peer would (full node). Returns the digest R will know it under.
    pub async fn provide_batch(&mut self, txs: Vec<Vec<u8>>) -> Digest {
        let bytes = bincode::serialize(&mempool::verif::MempoolMessage::Batch(txs)).expect("serialize batch");
        let d = crate::model::sha512_256(&bytes);
        if self.full_node {
            let from = self.puppets()[0];
            self.send_to(from, crate::world::SVC_MEMPOOL, Bytes::from(bytes)).await;
        } else if let Some(s) = self.node.store.as_mut() {
            s.write(d.to_vec(), bytes).await;
        }
        d
    }

    pub async fn send(&mut self, from: usize, msg: &ConsensusMessage) {
        let data = bincode::serialize(msg).expect("serialize");
        self.send_raw(from, Bytes::from(data)).await;
    }

    /// Let everything in flight be processed (virtual milliseconds; far below the round timeout).
    pub async fn settle(&mut self) {
        sleep(Duration::from_millis(12)).await;
        self.drain();
    }

    pub async fn wait_ms(&mut self, ms: u64) {
        sleep(Duration::from_millis(ms)).await;
        self.drain();
    }

    /// Sleep long enough for R's round timer to fire once (if nothing resets it).
    pub async fn fire_timer(&mut self) {
        sleep(Duration::from_millis(self.timeout_ms + 3)).await;
        self.settle().await;
    }

    pub fn drain(&mut self) {
        let msgs: Vec<(usize, ConsensusMessage)> = self.inbox.lock().unwrap().drain(..).collect();
        for (j, m) in msgs {
            match m {
                ConsensusMessage::Propose(b) => {
                    self.blocks.entry(b.digest()).or_insert_with(|| b.clone());
                    if b.author == self.topo.names[self.r] && !self.r_blocks.iter().any(|x| x.digest() == b.digest()) {
                        self.r_blocks.push(b);
                    }
                }
                ConsensusMessage::Vote(v) => {
                    if !self.r_votes.iter().any(|x| x.hash == v.hash && x.round == v.round) {
                        self.r_votes.push(v);
                    }
                }
                ConsensusMessage::Timeout(t) => {
                    if !self.r_timeouts.iter().any(|x| x.round == t.round) {
                        self.r_timeouts.push(t);
                    }
                }
                ConsensusMessage::TC(t) => {
                    if !self.r_tcs.iter().any(|x| x.round == t.round) {
                        self.r_tcs.push(t);
                    }
                }
                ConsensusMessage::SyncRequest(d, _) => self.r_syncs.push((j, d)),
            }
        }
    }

    // ---- message construction (always through the repository's own digest()) ----

    pub fn mk_block(&mut self, author: usize, round: u64, qc: QC, tc: Option<TC>, payload: Vec<Digest>) -> Block {
        let mut b = Block { qc, tc, author: self.topo.names[author], round, payload, signature: Signature::default() };
        b.signature = self.topo.sign(author, &b.digest());
        self.blocks.entry(b.digest()).or_insert_with(|| b.clone());
        b
    }

    pub fn mk_vote(&self, signer: usize, hash: &Digest, round: u64) -> Vote {
        let mut v = Vote { hash: hash.clone(), round, author: self.topo.names[signer], signature: Signature::default() };
        v.signature = self.topo.sign(signer, &v.digest());
        v
    }

    /// Smallest prefix of `order` whose stake reaches the quorum.
    pub fn quorum_prefix(&self, order: &[usize]) -> Vec<usize> {
        let q = self.topo.quorum();
        let mut w = 0u64;
        let mut out = Vec::new();
        for i in order {
            if w >= q {
                break;
            }
            out.push(*i);
            w += self.topo.stakes[*i] as u64;
        }
        out
    }

    pub fn random_quorum(&self, rng: &mut StdRng) -> Vec<usize> {
        let mut p = self.puppets();
        p.shuffle(rng);
        self.quorum_prefix(&p)
    }

    pub fn mk_qc(&mut self, hash: &Digest, round: u64, signers: &[usize]) -> QC {
        self.certified.insert(hash.clone());
        let votes = signers.iter().map(|i| {
            let v = self.mk_vote(*i, hash, round);
            (v.author, v.signature)
        });
        QC { hash: hash.clone(), round, votes: votes.collect() }
    }

    pub fn mk_timeout(&self, signer: usize, round: u64, high_qc: QC) -> Timeout {
        let mut t = Timeout { high_qc, round, author: self.topo.names[signer], signature: Signature::default() };
        t.signature = self.topo.sign(signer, &t.digest());
        t
    }

    pub fn mk_tc(&self, round: u64, entries: &[(usize, u64)]) -> TC {
        let votes = entries
            .iter()
            .map(|(i, hq)| {
                let t = self.mk_timeout(*i, round, QC { hash: Digest::default(), round: *hq, votes: Vec::new() });
                (t.author, t.signature, *hq)
            })
            .collect();
        TC { round, votes }
    }

    pub fn genesis_qc() -> QC {
        QC::genesis()
    }

    /// Write a batch (arbitrary bytes under `digest`) into R's store, as its mempool would.
    pub async fn store_batch(&mut self, digest: &Digest) {
        if let Some(s) = self.node.store.as_mut() {
            s.write(digest.to_vec(), b"batch".to_vec()).await;
        }
    }

    pub async fn deliver_block(&mut self, b: &Block) {
        let from = match self.topo.index_of(&b.author) {
            Some(a) if a != self.r => a,
            _ => self.puppets()[0],
        };
        self.send(from, &ConsensusMessage::Propose(b.clone())).await;
    }

    pub fn is_ancestor_or_self(&self, anc: &Digest, d: &Digest) -> bool {
        let mut cur = d.clone();
        for _ in 0..100_000 {
            if &cur == anc {
                return true;
            }
            if cur == Digest::default() {
                return false;
            }
            match self.blocks.get(&cur) {
                Some(b) => cur = b.qc.hash.clone(),
                None => return false,
            }
        }
        false
    }

    pub fn finish(self) -> (Arc<Topo>, usize, HashMap<String, usize>, HashSet<Digest>, HashMap<Digest, Block>) {
        let mut store_of = HashMap::new();
        store_of.insert(self.node.store_path.clone(), self.r);
        (self.topo.clone(), self.r, store_of, self.certified.clone(), self.blocks.clone())
    }
}

pub fn pick_stakes(rng: &mut StdRng, n: usize, r: usize) -> Vec<u32> {
    // Puppets alone must hold a quorum: N - stake(R) >= floor(2N/3)+1.
    for _ in 0..50 {
        let s: Vec<u32> = match rng.gen_range(0, 3) {
            0 => vec![1; n],
            1 => (0..n).map(|_| rng.gen_range(1, 4)).collect(),
            _ => {
                let mut s = vec![1; n];
                let k = rng.gen_range(0, n);
                s[k] = 2;
                s
            }
        };
        let total: u64 = s.iter().map(|x| *x as u64).sum();
        if total - s[r] as u64 >= 2 * total / 3 + 1 {
            return s;
        }
    }
    vec![1; n]
}

#[allow(dead_code)]
pub fn log_note(s: String) {
    evlog::note(s);
}
