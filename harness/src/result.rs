// Result record printed by every scenario: one line `RESULT <json>` on stdout.
use crate::monitors::Report;
use serde_json::{json, Value};

pub struct RunResult {
    pub workload: String,
    pub class: String,
    pub seed: u64,
    pub params: Value,
    pub report: Report,
    pub fingerprint: String,
    pub wall_ms: u64,
    pub virtual_ms: u64,
    pub sample: Value,
    /// Component workloads: number of cases evaluated and the distinct non-trivial case classes seen.
    pub cases: u64,
    pub classes: Vec<String>,
}

impl RunResult {
    pub fn to_json(&self) -> Value {
        let violations: Vec<Value> = self
            .report
            .violations
            .iter()
            .map(|v| json!({"property": v.property, "sig": v.sig, "detail": v.detail, "witness": v.witness}))
            .collect();
        json!({
            "workload": self.workload,
            "class": self.class,
            "seed": self.seed,
            "params": self.params,
            "violations": violations,
            "counters": self.report.counters,
            "situations": self.report.situations,
            "inconclusive": self.report.inconclusive,
            "fingerprint": self.fingerprint,
            "wall_ms": self.wall_ms,
            "virtual_ms": self.virtual_ms,
            "sample": self.sample,
            "cases": self.cases,
            "classes": self.classes,
        })
    }

    pub fn print(&self) {
        println!("RESULT {}", self.to_json());
    }
}
