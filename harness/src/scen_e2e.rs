// C13: real full nodes (Node::new: mempool + consensus on one store) on the simulated network;
// clients submit transactions through the transaction ports. Clause 1 (no faults, no view change):
// every transaction ends up in a batch referenced by a block that every node commits, and the batch
// is readable from every node's re-opened store. Clause 2 (a mempool link is blocked so that a node
// misses batch broadcasts): the node fetches the batches on demand and keeps up.
use crate::cluster::{run_virtual, Cluster, ClusterCfg};
use crate::evlog::{self, Kind, Parsed};
use crate::model::sha512_256;
use crate::monitors::{self, Ctx, Report};
use crate::result::RunResult;
use crate::world::{addr, SVC_MEMPOOL, SVC_TX, TAG_CLIENT};
use crate::Params;
use bytes::Bytes;
use consensus::verif::Event as CE;
use crypto::Digest;
use futures::SinkExt as _;
use mempool::verif::MempoolMessage;
use network::simnet::{ConnectDecision, Dir, TcpStream};
use rand::rngs::StdRng;
use rand::{Rng as _, SeedableRng as _};
use serde_json::json;
use std::collections::{BTreeSet, HashMap, HashSet};
use store::Store;
use tokio::time::{sleep, Duration};
use tokio_util::codec::{Framed, LengthDelimitedCodec};

#[derive(Clone, Debug)]
pub struct Plan {
    pub n: usize,
    pub timeout_ms: u64,
    pub hi_ms: u64,
    /// (target node, number of transactions, gap between them in ms, size)
    pub clients: Vec<(usize, usize, u64, usize)>,
    /// Blocked mempool link: batches broadcast by `.0` never reach `.1`.
    pub blocked: Option<(usize, usize)>,
    pub submit_ms: u64,
    pub settle_ms: u64,
    pub duplicates: bool,
    pub sync_retry_ms: u64,
    pub mempool_sync_retry_ms: u64,
    /// When the clients start submitting (the blocked-link classes also start right at boot, so that
    /// batches are missed in the very first rounds, before the first commit).
    pub start_ms: u64,
}

pub fn plan(class: &str, seed: u64, p: &Params) -> Plan {
    let mut rng = StdRng::seed_from_u64(seed ^ 0xc13);
    let n = p.get_u64("n").map(|x| x as usize).unwrap_or_else(|| rng.gen_range(4, 8));
    let timeout_ms = 2_000;
    let pattern = rng.gen_range(0, 5);
    let mut clients = Vec::new();
    match pattern {
        0 => clients.push((rng.gen_range(0, n), rng.gen_range(5, 60), rng.gen_range(0, 30), rng.gen_range(1, 150))),
        1 => {
            for i in 0..n {
                clients.push((i, rng.gen_range(3, 30), rng.gen_range(0, 40), rng.gen_range(1, 150)));
            }
        }
        4 => {
            // a large burst of transactions that each fill a batch: hundreds of digests queue up at the proposers
            clients.push((rng.gen_range(0, n), rng.gen_range(300, 700), 0, rng.gen_range(201, 300)));
        }
        2 => {
            // bursts
            for _ in 0..rng.gen_range(1, 4) {
                clients.push((rng.gen_range(0, n), rng.gen_range(20, 80), 0, rng.gen_range(1, 300)));
            }
        }
        _ => {
            for _ in 0..rng.gen_range(2, 5) {
                clients.push((rng.gen_range(0, n), rng.gen_range(1, 25), rng.gen_range(0, 100), rng.gen_range(0, 64)));
            }
        }
    }
    let blocked = if class == "s10" || class == "s10b" {
        let c = clients[0].0;
        let mut v = rng.gen_range(0, n);
        while v == c {
            v = rng.gen_range(0, n);
        }
        Some((c, v))
    } else {
        None
    };
    let start_ms = if blocked.is_some() && rng.gen_bool(0.5) { 20 } else { 200 };
    Plan { start_ms, n, timeout_ms, hi_ms: 40, clients, blocked, submit_ms: 4_000, settle_ms: if blocked.is_some() { 40_000 } else { 20_000 }, duplicates: rng.gen_bool(0.3), sync_retry_ms: if class == "s10b" { 1_000 } else { 5_000 }, mempool_sync_retry_ms: if class == "s10b" { 6_000 } else { 2_000 } }
}

pub struct Outcome {
    pub log: Vec<evlog::Ev>,
    pub topo: std::sync::Arc<crate::world::Topo>,
    pub honest: Vec<usize>,
    pub store_of: HashMap<String, usize>,
    pub submitted: Vec<(usize, Vec<u8>)>,
    pub reopened: HashMap<usize, HashMap<Digest, Option<Vec<u8>>>>,
}

pub fn execute(plan: &Plan, seed: u64) -> Outcome {
    let plan2 = plan.clone();
    let (log, topo, honest, store_of, submitted, paths) = run_virtual(async move {
        let plan = plan2;
        evlog::begin();
        let mut cfg = ClusterCfg::new(plan.n, seed);
        cfg.timeout_ms = plan.timeout_ms;
        cfg.full_node = true;
        cfg.batch_size = 200;
        cfg.max_batch_delay = 50;
        cfg.mempool_sync_retry_ms = plan.mempool_sync_retry_ms;
        cfg.sync_retry_ms = plan.sync_retry_ms;
        let cluster = Cluster::start(cfg).await;
        {
            let mut c = cluster.ctl.lock().unwrap();
            c.lo_ms = 1;
            c.hi_ms = plan.hi_ms;
            if let Some((from, to)) = plan.blocked {
                c.connect_hook = Some(Box::new(move |route, _conn, _rng| {
                    if route.svc == SVC_MEMPOOL && route.src == from && route.dst == to {
                        Some(ConnectDecision::Refuse)
                    } else {
                        None
                    }
                }));
            }
        }
        sleep(Duration::from_millis(plan.start_ms)).await;
        let submitted: std::sync::Arc<std::sync::Mutex<Vec<(usize, Vec<u8>)>>> = Default::default();
        let mut tasks = Vec::new();
        for (k, (node, count, gap, size)) in plan.clients.iter().cloned().enumerate() {
            let submitted = submitted.clone();
            let dup = plan.duplicates;
            tasks.push(tokio::spawn(async move {
                let s = match TcpStream::connect(addr(TAG_CLIENT + k, node, SVC_TX)).await {
                    Ok(s) => s,
                    Err(_) => return,
                };
                let mut framed = Framed::new(s, LengthDelimitedCodec::new());
                for i in 0..count {
                    // unique content: client, counter (an empty transaction when size = 0)
                    let mut tx = Vec::new();
                    if size > 0 {
                        tx.extend_from_slice(&[1u8]);
                        tx.extend_from_slice(&(k as u16).to_le_bytes());
                        tx.extend_from_slice(&(i as u32).to_le_bytes());
                        while tx.len() < size.max(7) {
                            tx.push((tx.len() % 251) as u8);
                        }
                    }
                    let times = if dup && i % 5 == 0 { 2 } else { 1 };
                    for _ in 0..times {
                        if framed.send(Bytes::from(tx.clone())).await.is_err() {
                            return;
                        }
                        submitted.lock().unwrap().push((node, tx.clone()));
                    }
                    if gap > 0 {
                        sleep(Duration::from_millis(gap)).await;
                    }
                }
                sleep(Duration::from_millis(1_000_000)).await;
            }));
        }
        sleep(Duration::from_millis(plan.submit_ms + plan.settle_ms)).await;
        let honest = cluster.started();
        let store_of: HashMap<String, usize> = cluster.nodes.iter().map(|h| (h.store_path.clone(), h.idx)).collect();
        let paths: Vec<(usize, String)> = cluster.nodes.iter().map(|h| (h.idx, h.store_path.clone())).collect();
        let topo = cluster.topo.clone();
        let log = evlog::end();
        let sub = submitted.lock().unwrap().clone();
        // keep the scratch directory alive until the stores have been re-opened
        let scratch = cluster.scratch;
        (log, topo, honest, store_of, sub, (paths, scratch))
    });
    // All node tasks are gone with the runtime: re-open every store and read the committed batches.
    let mut wanted: HashSet<Digest> = HashSet::new();
    for ev in &log {
        if let Kind::App { block, .. } = &ev.kind {
            for d in &block.payload {
                wanted.insert(d.clone());
            }
        }
    }
    let (paths, scratch) = paths;
    let mut reopened = HashMap::new();
    for (idx, path) in &paths {
        let mut got = None;
        for _ in 0..200 {
            let rt = tokio::runtime::Builder::new_current_thread().enable_time().build().unwrap();
            let wanted2 = wanted.clone();
            let r = rt.block_on(async {
                match Store::new(path) {
                    Ok(mut s) => {
                        let mut m = HashMap::new();
                        for d in wanted2 {
                            let v = s.read(d.to_vec()).await.expect("read");
                            m.insert(d, v);
                        }
                        Some(m)
                    }
                    Err(_) => None,
                }
            });
            drop(rt);
            if r.is_some() {
                got = r;
                break;
            }
            std::thread::sleep(std::time::Duration::from_millis(5));
        }
        if let Some(m) = got {
            reopened.insert(*idx, m);
        }
    }
    drop(scratch);
    Outcome { log, topo, honest, store_of, submitted, reopened }
}

pub fn judge(plan: &Plan, out: &Outcome, r: &mut Report) {
    let label = format!("{:?}", plan);
    // Premise of clause 1.
    let timeouts = out.log.iter().filter(|e| matches!(e.kind, Kind::Core(CE::Timeout { .. }))).count();
    // tx -> batches (own batches as first transmitted by their creator)
    let mut batch_of_tx: HashMap<Vec<u8>, Vec<Digest>> = HashMap::new();
    let mut batch_bytes: HashMap<Digest, Vec<u8>> = HashMap::new();
    let mut batch_requests = 0u64;
    let mut batch_request_by: HashMap<usize, u64> = HashMap::new();
    for ev in &out.log {
        if let Kind::FrameOut { frame, .. } = &ev.kind {
            if frame.route.svc == SVC_MEMPOOL && frame.dir == Dir::ToServer {
                match &frame.parsed {
                    Parsed::Batch { digest, .. } => {
                        if !batch_bytes.contains_key(digest) {
                            batch_bytes.insert(digest.clone(), frame.data.to_vec());
                            if let Ok(MempoolMessage::Batch(txs)) = bincode::deserialize::<MempoolMessage>(&frame.data) {
                                for t in txs {
                                    batch_of_tx.entry(t).or_default().push(digest.clone());
                                }
                            }
                        }
                    }
                    Parsed::BatchRequest { .. } => {
                        batch_requests += 1;
                        *batch_request_by.entry(frame.route.src).or_default() += 1;
                    }
                    _ => {}
                }
            }
        }
    }
    // payload digests of every proposal that went out on the wire (committed or not)
    let mut proposed: HashSet<Digest> = HashSet::new();
    for ev in &out.log {
        if let Kind::FrameOut { frame, .. } = &ev.kind {
            if let Some(evlog::CMsg::Propose(b)) = frame.cons() {
                for d in &b.payload {
                    proposed.insert(d.clone());
                }
            }
        }
    }
    // committed payloads per node
    let mut committed: HashMap<usize, HashSet<Digest>> = HashMap::new();
    let mut hi_round: HashMap<usize, u64> = HashMap::new();
    for ev in &out.log {
        if let Kind::App { node, block } = &ev.kind {
            for d in &block.payload {
                committed.entry(*node).or_default().insert(d.clone());
            }
            let e = hi_round.entry(*node).or_insert(0);
            *e = (*e).max(block.round);
        }
    }
    r.count("C13.transactions_submitted", out.submitted.len() as u64);
    r.count("C13.batch_requests_on_the_wire", batch_requests);
    if timeouts > 0 && plan.blocked.is_none() {
        r.inconclusive.push("C13: a view change happened in a run meant to be fault free (premise of clause 1 not met)".into());
        return;
    }
    // Clause 1 (also required in s10 runs for every node except that the victim may lag: there it
    // is checked for the nodes other than the victim, the victim is judged by clause 2).
    let victim = plan.blocked.map(|x| x.1);
    let distinct: HashSet<&Vec<u8>> = out.submitted.iter().map(|x| &x.1).collect();
    for tx in distinct {
        r.count("C13.transactions_traced", 1);
        let batches = match batch_of_tx.get(tx) {
            Some(b) => b,
            None => {
                r.violate("C13", "transaction-in-no-batch", format!("a submitted transaction of {} B is in no batch, {} ms after submission ended", tx.len(), plan.settle_ms), vec![label.clone()]);
                continue;
            }
        };
        for node in &out.honest {
            if Some(*node) == victim && timeouts > 0 {
                continue;
            }
            let has = batches.iter().any(|d| committed.get(node).map_or(false, |s| s.contains(d)));
            // The premise of this clause is a period without view changes. The repository's proposer does
            // not re-propose the payload of a block that a view change orphaned, so in a run with view
            // changes (possible only in the blocked-link classes) a transaction whose batch was proposed in
            // a block this node never committed is outside the premise, not a violation.
            if !has && timeouts > 0 && batches.iter().any(|d| proposed.contains(d)) {
                r.count("C13.transactions_excused_proposal_orphaned_by_view_change", 1);
                continue;
            }
            if !has {
                r.violate(
                    "C13",
                    "transaction-not-committed-everywhere",
                    format!("node {} has committed no block referencing a batch with a submitted transaction ({} B), {} ms after submission ended", node, tx.len(), plan.settle_ms),
                    vec![label.clone()],
                );
            }
        }
    }
    // Committed batches are readable from every node's re-opened store, byte for byte.
    for node in &out.honest {
        let m = match out.reopened.get(node) {
            Some(m) => m,
            None => {
                r.inconclusive.push("C13: a store could not be re-opened".into());
                continue;
            }
        };
        for d in committed.get(node).cloned().unwrap_or_default() {
            r.count("C13.committed_batches_read_back", 1);
            match m.get(&d) {
                Some(Some(bytes)) => {
                    if sha512_256(bytes) != d {
                        r.violate("C13", "stored-batch-does-not-hash-to-its-key", format!("node {}", node), vec![label.clone()]);
                    }
                }
                _ => r.violate("C13", "committed-batch-missing-from-store", format!("node {} committed a block referencing a batch that its re-opened store does not hold", node), vec![label.clone()]),
            }
        }
    }
    // Clause 2
    if let Some((from, to)) = plan.blocked {
        let fetched = batch_request_by.get(&to).cloned().unwrap_or(0);
        r.count("C13.on_demand_fetches_by_victim", fetched);
        if fetched > 0 {
            r.sit("C13:on_demand_batch_fetch");
        }
        let others_hi = out.honest.iter().filter(|x| **x != to).map(|x| hi_round.get(x).cloned().unwrap_or(0)).max().unwrap_or(0);
        let mine = hi_round.get(&to).cloned().unwrap_or(0);
        r.count("C13.victims_checked", 1);
        // rounds take >= 3 hops; in the last 10 s the others commit at most a few hundred rounds
        let from_batches: usize = batch_bytes.len();
        if from_batches > 0 && mine + 200 < others_hi {
            r.violate(
                "C13",
                "node-missing-batches-stalled",
                format!("node {} (cut off from node {}'s batch broadcasts) committed up to round {} while the others reached {}", to, from, mine, others_hi),
                vec![label.clone()],
            );
        }
        // Bounded lag: how long ago did the others first commit a round beyond the victim's final one?
        // A fetch costs at most the mempool's retry delay + its 1 s timer (first target silent) and the
        // consensus synchronizer's retry + its 5 s timer for the ancestors parked meanwhile.
        let end_us = (plan.start_ms + plan.submit_ms + plan.settle_ms) * 1000;
        let mut passed_at: Option<u64> = None;
        for ev in &out.log {
            if let Kind::App { node, block } = &ev.kind {
                if *node != to && block.round > mine {
                    passed_at = Some(ev.vt_us);
                    break;
                }
            }
        }
        let lag_ms = passed_at.map_or(0, |t| end_us.saturating_sub(t) / 1000);
        r.max("max.C13.victim_lag_ms", lag_ms);
        let allowed_ms = plan.mempool_sync_retry_ms + 1_000 + plan.sync_retry_ms + 5_000 + 10_000;
        if from_batches > 0 && lag_ms > allowed_ms && !(mine + 200 < others_hi) {
            r.violate(
                "C13",
                "node-missing-batches-lags",
                format!("node {} (cut off from node {}'s batch broadcasts) ended at committed round {}, which the others had passed {} ms before the end of the run (allowed {} ms)", to, from, mine, lag_ms, allowed_ms),
                vec![label.clone()],
            );
        }
        // every batch referenced by a block the victim committed is in its store (post-mortem, above)
    } else {
        r.sit("C13:fault_free_end_to_end");
    }
}

pub fn run(class: &str, seed: u64, p: &Params) -> RunResult {
    let t0 = std::time::Instant::now();
    let plan = plan(class, seed, p);
    let out = execute(&plan, seed);
    let ctx = Ctx { topo: &out.topo, honest: out.honest.clone(), store_of: out.store_of.clone(), log: &out.log };
    let (mut report, _ix) = monitors::check_all(&ctx);
    judge(&plan, &out, &mut report);
    let fingerprint = monitors::fingerprint(&ctx);
    for (loc, msg, th) in evlog::take_panics() {
        report.violate("C15", format!("panic@{}", loc), format!("panic in thread {}: {}", th, msg), vec![]);
    }
    if std::env::var("HSV_DUMP").is_ok() {
        for ev in &out.log {
            eprintln!("{}", monitors::describe(ev));
        }
    }
    let sample = json!({"plan": format!("{:?}", plan), "submitted": out.submitted.len()});
    let _ = BTreeSet::<u8>::new();
    RunResult {
        workload: "e2e".into(),
        class: class.into(),
        seed,
        params: json!({"n": plan.n}),
        report,
        fingerprint,
        wall_ms: t0.elapsed().as_millis() as u64,
        virtual_ms: plan.submit_ms + plan.settle_ms,
        sample,
        cases: 0,
        classes: Vec::new(),
    }
}
