// C15: a real full node (Node::new) with puppet peers is fed hostile input on its consensus,
// mempool and transaction ports; a process-wide panic hook and functional probes after every
// burst decide.
use crate::cluster::run_virtual;
use crate::evlog::{self, CMsg, Kind, Parsed};
use crate::model::sha512_256;
use crate::monitors::Report;
use crate::result::RunResult;
use crate::scen_puppet::{start, S};
use crate::world::{SVC_CONSENSUS, SVC_MEMPOOL, SVC_TX, TAG_CLIENT};
use crate::Params;
use bytes::Bytes;
use consensus::verif::ConsensusMessage;
use consensus::{Block, QC, TC};
use crypto::{generate_keypair, Digest, Hash as _, PublicKey, Signature};
use mempool::verif::MempoolMessage;
use rand::rngs::StdRng;
use rand::seq::SliceRandom as _;
use rand::{Rng as _, SeedableRng as _};
use serde_json::json;
use std::collections::BTreeSet;

fn rand_digest(rng: &mut StdRng) -> Digest {
    let mut b = [0u8; 32];
    rng.fill(&mut b);
    Digest(b)
}

fn rand_bytes(rng: &mut StdRng, n: usize) -> Vec<u8> {
    (0..n).map(|_| rng.gen()).collect()
}

pub struct Hostile {
    pub svc: u8,
    pub framed: bool,
    pub bytes: Vec<u8>,
    pub class: String,
}

/// Valid frames of every kind for the three ports (the corpus that is mutated).
fn corpus(s: &mut S) -> Vec<(u8, Vec<u8>, &'static str)> {
    let mut out = Vec::new();
    let r = s.p.r;
    let pup = s.p.puppets();
    let a = pup[0];
    let tip = s.tip.clone();
    let ser = |m: &ConsensusMessage| bincode::serialize(m).unwrap();
    if tip.round > 0 {
        out.push((SVC_CONSENSUS, ser(&ConsensusMessage::Propose(tip.clone())), "propose"));
        out.push((SVC_CONSENSUS, ser(&ConsensusMessage::Vote(s.p.mk_vote(a, &tip.digest(), tip.round))), "vote"));
        out.push((SVC_CONSENSUS, ser(&ConsensusMessage::SyncRequest(tip.digest(), s.p.name(a))), "sync"));
    }
    out.push((SVC_CONSENSUS, ser(&ConsensusMessage::Timeout(s.p.mk_timeout(a, s.cur, s.tip_qc.clone()))), "timeout"));
    let entries: Vec<(usize, u64)> = pup.iter().map(|i| (*i, 0)).collect();
    out.push((SVC_CONSENSUS, ser(&ConsensusMessage::TC(s.p.mk_tc(s.cur, &entries))), "tc"));
    out.push((SVC_MEMPOOL, bincode::serialize(&MempoolMessage::Batch(vec![vec![1, 2, 3], vec![], vec![9; 40]])).unwrap(), "batch"));
    out.push((SVC_MEMPOOL, bincode::serialize(&MempoolMessage::BatchRequest(vec![rand_digest(&mut s.rng)], s.p.name(a))).unwrap(), "batchrequest"));
    out.push((SVC_TX, vec![7u8; 64], "tx"));
    let _ = r;
    out
}

fn key_string_frame(rng: &mut StdRng, s: &S, len: usize, valid_b64: bool) -> (u8, Vec<u8>) {
    // A SyncRequest / Vote / BatchRequest whose PublicKey string has an arbitrary length.
    let string: Vec<u8> = if valid_b64 {
        let raw = rand_bytes(rng, len * 3 / 4 + 3);
        base64::encode(&raw).into_bytes().into_iter().take(len).collect()
    } else {
        (0..len).map(|_| b"!@#$ \n\0xyz="[rng.gen_range(0, 11)]).collect()
    };
    let mut v = Vec::new();
    match rng.gen_range(0, 3) {
        0 => {
            v.extend_from_slice(&4u32.to_le_bytes()); // ConsensusMessage::SyncRequest
            v.extend_from_slice(&s.tip.digest().0);
            v.extend_from_slice(&(string.len() as u64).to_le_bytes());
            v.extend_from_slice(&string);
            (SVC_CONSENSUS, v)
        }
        1 => {
            v.extend_from_slice(&1u32.to_le_bytes()); // ConsensusMessage::Vote
            v.extend_from_slice(&s.tip.digest().0);
            v.extend_from_slice(&s.tip.round.to_le_bytes());
            v.extend_from_slice(&(string.len() as u64).to_le_bytes());
            v.extend_from_slice(&string);
            v.extend_from_slice(&[0u8; 64]);
            (SVC_CONSENSUS, v)
        }
        _ => {
            v.extend_from_slice(&1u32.to_le_bytes()); // MempoolMessage::BatchRequest
            v.extend_from_slice(&1u64.to_le_bytes());
            v.extend_from_slice(&[5u8; 32]);
            v.extend_from_slice(&(string.len() as u64).to_le_bytes());
            v.extend_from_slice(&string);
            (SVC_MEMPOOL, v)
        }
    }
}

/// One hostile frame of a random class.
fn hostile(s: &mut S, known_batch: &Option<Digest>, known_block: &Option<Digest>) -> Hostile {
    let corpus = corpus(s);
    let rng = &mut s.rng;
    let any_port = |rng: &mut StdRng| [SVC_CONSENSUS, SVC_MEMPOOL, SVC_TX][rng.gen_range(0, 3)];
    match rng.gen_range(0, 17) {
        15 => {
            // Structurally valid messages for the node's current round whose signature bytes are
            // malformed in ways an honest signer never produces: all-ones, non-canonical top bits,
            // scalar >= group order, identity / random point. Decoding and verification must reject
            // them, not panic.
            let a = s.p.puppets()[0];
            let good = s.p.mk_vote(a, &s.tip.digest(), s.cur);
            let mut raw: [u8; 64] = [0u8; 64];
            raw.copy_from_slice(&bincode::serialize(&good.signature).unwrap()[..64]);
            let pat = s.rng.gen_range(0, 7);
            match pat {
                0 => raw = [0xffu8; 64],
                1 => raw[63] |= 0x80,
                2 => raw[63] |= 0x40,
                3 => raw[63] |= 0x20,
                4 => {
                    let l: [u8; 32] = [0xed, 0xd3, 0xf5, 0x5c, 0x1a, 0x63, 0x12, 0x58, 0xd6, 0x9c, 0xf7, 0xa2, 0xde, 0xf9, 0xde, 0x14, 0, 0, 0, 0, 0, 0, 0, 0, 0, 0, 0, 0, 0, 0, 0, 0x10];
                    raw[32..].copy_from_slice(&l);
                }
                5 => {
                    raw = [0u8; 64];
                    raw[0] = 1;
                }
                _ => {
                    for b in raw.iter_mut() {
                        *b = s.rng.gen();
                    }
                }
            }
            let sig: Signature = bincode::deserialize(&raw).unwrap();
            let cur = s.cur;
            let (m, k): (ConsensusMessage, &str) = match s.rng.gen_range(0, 5) {
                0 => {
                    let mut v = s.p.mk_vote(a, &s.tip.digest(), cur);
                    v.signature = sig;
                    (ConsensusMessage::Vote(v), "vote")
                }
                1 => {
                    let mut t = s.p.mk_timeout(a, cur, s.tip_qc.clone());
                    t.signature = sig;
                    (ConsensusMessage::Timeout(t), "timeout")
                }
                2 => {
                    let entries: Vec<(usize, u64)> = s.p.puppets().iter().map(|i| (*i, 0)).collect();
                    let mut tc = s.p.mk_tc(cur, &entries);
                    let k = s.rng.gen_range(0, tc.votes.len());
                    tc.votes[k].1 = sig;
                    (ConsensusMessage::TC(tc), "tc-member")
                }
                3 => {
                    let mut qc = s.tip_qc.clone();
                    if !qc.votes.is_empty() {
                        let k = s.rng.gen_range(0, qc.votes.len());
                        qc.votes[k].1 = sig;
                    }
                    (ConsensusMessage::Timeout(s.p.mk_timeout(a, cur, qc)), "timeout-embedded-qc-member")
                }
                _ => {
                    let leader = s.p.leader(cur);
                    let author = if leader == s.p.r { a } else { leader };
                    let mut b = Block { qc: s.tip_qc.clone(), tc: None, author: s.p.name(author), round: cur, payload: vec![], signature: Signature::default() };
                    if s.rng.gen_bool(0.5) && !b.qc.votes.is_empty() {
                        let k = s.rng.gen_range(0, b.qc.votes.len());
                        b.qc.votes[k].1 = sig;
                        b.signature = s.p.topo.sign(author, &b.digest());
                        (ConsensusMessage::Propose(b), "block-embedded-qc-member")
                    } else {
                        b.signature = sig;
                        (ConsensusMessage::Propose(b), "block")
                    }
                }
            };
            Hostile { svc: SVC_CONSENSUS, framed: true, bytes: bincode::serialize(&m).unwrap(), class: format!("signature-bytes/p{}/{}", pat, k) }
        }
        0 => {
            let len = [0usize, 1, 2, 3, 4, 7, 8, 9, 31, 32, 33, 64, 100, 1000, 65_536][rng.gen_range(0, 15)];
            Hostile { svc: any_port(rng), framed: true, bytes: rand_bytes(rng, len), class: "random-bytes".into() }
        }
        1 => {
            let (svc, mut b, k) = corpus.choose(rng).unwrap().clone();
            for _ in 0..rng.gen_range(1, 4) {
                let i = rng.gen_range(0, b.len().max(1));
                if !b.is_empty() {
                    b[i] ^= 1 << rng.gen_range(0, 8);
                }
            }
            Hostile { svc, framed: true, bytes: b, class: format!("bitflip/{}", k) }
        }
        2 => {
            let (svc, mut b, k) = corpus.choose(rng).unwrap().clone();
            let cut = rng.gen_range(0, b.len().max(1));
            b.truncate(cut);
            Hostile { svc, framed: true, bytes: b, class: format!("truncate/{}", k) }
        }
        3 => {
            let (svc, mut b, k) = corpus.choose(rng).unwrap().clone();
            let extra = rng.gen_range(1, 200);
            b.extend(rand_bytes(rng, extra));
            Hostile { svc, framed: true, bytes: b, class: format!("extend/{}", k) }
        }
        4 => {
            let (svc, a, k) = corpus.choose(rng).unwrap().clone();
            let (_, b, _) = corpus.choose(rng).unwrap().clone();
            let i = rng.gen_range(0, a.len().max(1));
            let j = rng.gen_range(0, b.len().max(1));
            let mut v = a[..i].to_vec();
            v.extend_from_slice(&b[j..]);
            Hostile { svc, framed: true, bytes: v, class: format!("splice/{}", k) }
        }
        5 => {
            let (svc, mut b, k) = corpus.choose(rng).unwrap().clone();
            if b.len() >= 4 {
                let tag: u32 = if rng.gen_bool(0.5) { rng.gen_range(0, 256) } else { rng.gen() };
                b[..4].copy_from_slice(&tag.to_le_bytes());
            }
            Hostile { svc, framed: true, bytes: b, class: format!("enum-tag/{}", k) }
        }
        6 => {
            let (svc, mut b, k) = corpus.choose(rng).unwrap().clone();
            if b.len() >= 12 {
                let i = rng.gen_range(0, b.len() - 8);
                let val: u64 = [0u64, 1, (1u64 << 32) - 1, u64::MAX, 1 << 40][rng.gen_range(0, 5)];
                b[i..i + 8].copy_from_slice(&val.to_le_bytes());
            }
            Hostile { svc, framed: true, bytes: b, class: format!("length-field/{}", k) }
        }
        7 => {
            let len = rng.gen_range(0, 101);
            let valid = rng.gen_bool(0.7);
            let s2: &S = s;
            let mut r2 = StdRng::seed_from_u64(len as u64 * 7919 + valid as u64 + s2.cur);
            let (svc, bytes) = key_string_frame(&mut r2, s2, len, valid);
            Hostile { svc, framed: true, bytes, class: format!("key-string/len{}", len) }
        }
        8 => {
            // well-formed but absurd consensus content, never validly certified
            let leader = s.p.leader(s.cur);
            let author = if leader == s.p.r { s.p.puppets()[0] } else { leader };
            let kind = s.rng.gen_range(0, 6);
            let (m, k): (ConsensusMessage, &str) = match kind {
                0 => (ConsensusMessage::Propose(Block { qc: QC::genesis(), tc: None, author: s.p.name(author), round: 0, payload: vec![], signature: Signature::default() }), "block-round-0"),
                1 => (ConsensusMessage::Propose(Block { qc: QC { hash: Digest::default(), round: u64::MAX, votes: vec![] }, tc: Some(TC { round: u64::MAX, votes: vec![] }), author: s.p.name(author), round: u64::MAX, payload: vec![], signature: Signature::default() }), "block-round-max"),
                2 => (ConsensusMessage::TC(TC { round: s.cur, votes: vec![] }), "tc-no-votes"),
                3 => {
                    let votes = (0..50_000).map(|_| (s.p.name(author), Signature::default())).collect();
                    (ConsensusMessage::Propose(Block { qc: QC { hash: rand_digest(&mut s.rng), round: s.cur.saturating_sub(1), votes }, tc: None, author: s.p.name(author), round: s.cur, payload: vec![], signature: Signature::default() }), "qc-50000-votes")
                }
                4 => {
                    let payload = (0..100_000).map(|i| Digest([(i % 251) as u8; 32])).collect();
                    let mut b = Block { qc: s.tip_qc.clone(), tc: None, author: s.p.name(author), round: s.cur + 1_000, payload, signature: Signature::default() };
                    b.signature = s.p.topo.sign(author, &b.digest());
                    (ConsensusMessage::Propose(b), "payload-100000-digests")
                }
                _ => {
                    let votes = (0..50_000).map(|i| (s.p.name(author), Signature::default(), i as u64)).collect();
                    (ConsensusMessage::TC(TC { round: s.cur, votes }), "tc-50000-votes")
                }
            };
            Hostile { svc: SVC_CONSENSUS, framed: true, bytes: bincode::serialize(&m).unwrap(), class: format!("absurd/{}", k) }
        }
        9 => {
            // sync requests: unknown digest / a batch digest / unknown origin / the node itself
            let stranger = generate_keypair(&mut s.rng).0;
            let a = s.p.puppets()[0];
            let (d, origin, k): (Digest, PublicKey, &str) = match s.rng.gen_range(0, 4) {
                0 => (rand_digest(&mut s.rng), s.p.name(a), "sync-unknown-digest"),
                1 => (known_batch.clone().unwrap_or_default(), s.p.name(a), "sync-for-batch-digest"),
                2 => (known_block.clone().unwrap_or_default(), stranger, "sync-from-stranger"),
                _ => (known_block.clone().unwrap_or_default(), s.p.name(s.p.r), "sync-from-itself"),
            };
            Hostile { svc: SVC_CONSENSUS, framed: true, bytes: bincode::serialize(&ConsensusMessage::SyncRequest(d, origin)).unwrap(), class: format!("absurd/{}", k) }
        }
        10 => {
            let stranger = generate_keypair(&mut s.rng).0;
            let a = s.p.puppets()[0];
            let (m, k): (MempoolMessage, &str) = match s.rng.gen_range(0, 6) {
                0 => (MempoolMessage::BatchRequest(vec![known_block.clone().unwrap_or_default()], s.p.name(a)), "batchrequest-for-block-digest"),
                1 => (MempoolMessage::BatchRequest((0..100_000).map(|i| Digest([(i % 253) as u8; 32])).collect(), s.p.name(a)), "batchrequest-100000-digests"),
                2 => (MempoolMessage::BatchRequest(vec![known_batch.clone().unwrap_or_default()], stranger), "batchrequest-from-stranger"),
                3 => (MempoolMessage::Batch(vec![]), "batch-empty"),
                4 => (MempoolMessage::Batch(vec![vec![]; 100_000]), "batch-100000-empty-txs"),
                _ => (MempoolMessage::BatchRequest(vec![], s.p.name(a)), "batchrequest-empty"),
            };
            Hostile { svc: SVC_MEMPOOL, framed: true, bytes: bincode::serialize(&m).unwrap(), class: format!("absurd/{}", k) }
        }
        11 => {
            // a valid frame of one port sent to another port
            let (svc, b, k) = corpus.choose(rng).unwrap().clone();
            let other = [SVC_CONSENSUS, SVC_MEMPOOL, SVC_TX].iter().cloned().filter(|x| *x != svc).collect::<Vec<_>>()[rng.gen_range(0, 2)];
            Hostile { svc: other, framed: true, bytes: b, class: format!("cross-port/{}-to-svc{}", k, other) }
        }
        12 => {
            // unframed: a header announcing far more than follows / more than the frame limit
            let announce: u32 = [u32::MAX, 8 * 1024 * 1024 + 1, 8 * 1024 * 1024, 1 << 31, 100][rng.gen_range(0, 5)];
            let mut v = announce.to_be_bytes().to_vec();
            let n = rng.gen_range(0, 64);
            v.extend(rand_bytes(rng, n));
            Hostile { svc: any_port(rng), framed: false, bytes: v, class: format!("header/announce{}", announce) }
        }
        13 => {
            let n = rng.gen_range(1, 4);
            Hostile { svc: any_port(rng), framed: false, bytes: rand_bytes(rng, n), class: "header/partial".into() }
        }
        14 => {
            // transactions: empty, tiny, sample-marker, large (well below the frame limit)
            let len = [0usize, 1, 8, 9, 10, 200, 201, 100_000, 1_000_000][rng.gen_range(0, 9)];
            let mut t = rand_bytes(rng, len);
            if len > 0 && rng.gen_bool(0.5) {
                t[0] = 0;
            }
            Hostile { svc: SVC_TX, framed: true, bytes: t, class: format!("tx/len{}", len) }
        }
        _ => {
            // replay of valid frames many times
            let (svc, b, k) = corpus.choose(rng).unwrap().clone();
            Hostile { svc, framed: true, bytes: b, class: format!("replay/{}", k) }
        }
    }
}

struct ProbeState {
    known_batch: Option<Digest>,
    known_block: Option<Digest>,
    tx_counter: u64,
}

async fn probes(s: &mut S, st: &mut ProbeState, r: &mut Report, ctx: &str) {
    let n = s.p.topo.n;
    // P1: a valid proposal for the current round is voted.
    let mut voted = false;
    let mut tried = 0;
    for _ in 0..(3 * n + 6) {
        let eligible = s.p.leader(s.cur) != s.p.r && s.p.leader(s.cur + 1) != s.p.r && s.tip.round + 1 == s.cur;
        let b = s.advance(vec![], true).await;
        if let (true, Some(b)) = (eligible, b) {
            tried += 1;
            if s.p.r_votes.iter().any(|v| v.hash == b.digest()) {
                voted = true;
                break;
            }
            if tried >= 3 {
                break;
            }
        }
    }
    r.count("C15.probe_vote", 1);
    if !voted {
        r.violate("C15", "probe-failed:valid-proposal-not-voted", format!("after hostile input ({}) the node no longer votes for valid proposals of its current round ({} tried)", ctx, tried), vec![]);
    }
    // P2: a sync request for a block the node has stored is answered with that block.
    if let Some(b) = s.all.iter().rev().find(|b| s.p.topo.index_of(&b.author) != Some(s.p.r) && s.p.r_votes.iter().any(|v| v.hash == b.digest())).cloned() {
        st.known_block = Some(b.digest());
        let j = s.p.puppets()[s.rng.gen_range(0, n - 1)];
        let mark = evlog::len();
        s.p.send(j, &ConsensusMessage::SyncRequest(b.digest(), s.p.name(j))).await;
        s.p.settle().await;
        let answered = evlog::tail(mark).iter().any(|e| match &e.kind {
            Kind::FrameIn { frame } => frame.route.src == s.p.r && frame.route.dst == j && matches!(frame.cons(), Some(CMsg::Propose(x)) if x.digest() == b.digest()),
            _ => false,
        });
        r.count("C15.probe_sync", 1);
        if !answered {
            r.violate("C15", "probe-failed:sync-request-not-answered", format!("after hostile input ({}) the node no longer answers a sync request for a block it stored", ctx), vec![]);
        }
    }
    // P3: a batch request for a batch the node has is answered.
    if st.known_batch.is_none() {
        let d = s.p.provide_batch(vec![vec![42u8; 30], vec![43u8; 10]]).await;
        s.p.settle().await;
        st.known_batch = Some(d);
    }
    if let Some(d) = st.known_batch.clone() {
        let j = s.p.puppets()[s.rng.gen_range(0, n - 1)];
        let mark = evlog::len();
        let req = bincode::serialize(&MempoolMessage::BatchRequest(vec![d.clone()], s.p.name(j))).unwrap();
        s.p.send_to(j, SVC_MEMPOOL, Bytes::from(req)).await;
        s.p.settle().await;
        let answered = evlog::tail(mark).iter().any(|e| match &e.kind {
            Kind::FrameIn { frame } => frame.route.src == s.p.r && frame.route.dst == j && frame.route.svc == SVC_MEMPOOL && matches!(&frame.parsed, Parsed::Batch { digest, .. } if *digest == d),
            _ => false,
        });
        r.count("C15.probe_batch_request", 1);
        if !answered {
            r.violate("C15", "probe-failed:batch-request-not-answered", format!("after hostile input ({}) the node no longer answers a batch request for a batch it stored", ctx), vec![]);
        }
    }
    // P4: client transactions are batched and broadcast.
    {
        let mark = evlog::len();
        let mut mine = Vec::new();
        for _ in 0..3 {
            st.tx_counter += 1;
            let mut t = vec![0xEEu8; 100];
            t[1..9].copy_from_slice(&st.tx_counter.to_le_bytes());
            mine.push(t.clone());
            s.p.send_to(TAG_CLIENT, SVC_TX, Bytes::from(t)).await;
        }
        s.p.wait_ms(60).await;
        let mut found = 0;
        for e in evlog::tail(mark) {
            if let Kind::FrameIn { frame } = &e.kind {
                if frame.route.src == s.p.r && frame.route.svc == SVC_MEMPOOL && frame.dir == network::simnet::Dir::ToServer {
                    if let Ok(MempoolMessage::Batch(txs)) = bincode::deserialize::<MempoolMessage>(&frame.data) {
                        for t in &mine {
                            if txs.contains(t) {
                                found += 1;
                            }
                        }
                    }
                }
            }
        }
        r.count("C15.probe_batching", 1);
        if found < mine.len() {
            r.violate("C15", "probe-failed:transactions-not-batched", format!("after hostile input ({}) client transactions are no longer batched and broadcast", ctx), vec![]);
        }
    }
    let _ = sha512_256;
}

pub fn run(class: &str, seed: u64, p: &Params) -> RunResult {
    let t0 = std::time::Instant::now();
    let class_s = class.to_string();
    let mut p2 = p.clone();
    p2.0.insert("full_node".into(), "1".into());
    p2.0.entry("timeout_ms".into()).or_insert("5000".into());
    p2.0.entry("n".into()).or_insert("4".into());
    p2.0.insert("equal_stakes".into(), "1".into());
    let bursts = p.get_u64("bursts").unwrap_or(8);
    let per_burst = p.get_u64("per_burst").unwrap_or(12);
    let (mut report, classes, samples, frames) = run_virtual(async move {
        evlog::begin();
        let mut rng = StdRng::seed_from_u64(seed.wrapping_mul(0x9e3779b97f4a7c15).wrapping_add(15));
        let mut s = start(seed, &p2, &mut rng).await;
        s.answer_sync_prob = 1.0;
        s.p.settle().await;
        let mut report = Report::default();
        let mut classes: BTreeSet<String> = BTreeSet::new();
        let mut samples = Vec::new();
        let mut st = ProbeState { known_batch: None, known_block: None, tx_counter: 0 };
        let mut frames = 0u64;
        // warm-up and baseline probes (a failure here is a harness problem, not a verdict)
        for _ in 0..3 {
            s.advance(vec![], true).await;
        }
        let mut base = Report::default();
        probes(&mut s, &mut st, &mut base, "baseline, no hostile input yet").await;
        if !base.violations.is_empty() {
            report.inconclusive.push(format!("C15: baseline probes failed before any hostile input: {:?}", base.violations.iter().map(|v| v.sig.clone()).collect::<Vec<_>>()));
            return (report, classes, samples, frames);
        }
        for b in 0..bursts {
            let mut ctx = Vec::new();
            if class_s == "bigtx" {
                // One transaction just below the 8 MiB frame limit, then the probes.
                let len = 8 * 1024 * 1024 - 8;
                let mut t = vec![0x11u8; len];
                t[0] = 1;
                s.p.send_to(TAG_CLIENT, SVC_TX, Bytes::from(t)).await;
                s.p.wait_ms(200).await;
                frames += 1;
                classes.insert("tx/near-frame-limit".into());
                ctx.push("tx/near-frame-limit".to_string());
            } else {
                for _ in 0..per_burst {
                    let h = hostile(&mut s, &st.known_batch, &st.known_block);
                    let from = if h.svc == SVC_TX { TAG_CLIENT } else { *s.p.puppets().choose(&mut s.rng).unwrap() };
                    if h.framed {
                        s.p.send_to(from, h.svc, Bytes::from(h.bytes.clone())).await;
                    } else {
                        s.p.send_unframed(from, h.svc, h.bytes.clone()).await;
                    }
                    frames += 1;
                    report.count(&format!("C15.frames_port{}", h.svc), 1);
                    classes.insert(format!("svc{}/{}", h.svc, h.class));
                    ctx.push(format!("svc{}:{}", h.svc, h.class));
                    if samples.len() < 4 {
                        samples.push(json!({"port": h.svc, "class": h.class, "framed": h.framed, "len": h.bytes.len(), "head_hex": h.bytes.iter().take(24).map(|x| format!("{:02x}", x)).collect::<String>()}));
                    }
                    if s.rng.gen_bool(0.3) {
                        s.p.settle().await;
                    }
                }
                s.p.settle().await;
            }
            let label = format!("burst {}: {}", b, ctx.join(", "));
            let before = report.violations.len();
            probes(&mut s, &mut st, &mut report, &label).await;
            if class_s == "bigtx" {
                // Key the finding on the exact input that triggers it.
                for v in report.violations.iter_mut().skip(before) {
                    if v.sig.starts_with("probe-failed:") {
                        v.sig = format!("{}:after-one-transaction-of-8388600-bytes", v.sig);
                    }
                }
            }
            // Attribute panics to the burst.
            for (loc, msg, th) in evlog::take_panics() {
                report.violate("C15", format!("panic@{}", loc.replace("/verif/repo/", "")), format!("panic in thread {}: {} [{}]", th, msg, label), vec![]);
            }
            if report.violations.len() > before {
                // Once a service is down every later probe fails too: stop here.
                break;
            }
        }
        let _ = evlog::end();
        (report, classes, samples, frames)
    });
    report.count("C15.hostile_frames", frames);
    for (loc, msg, th) in evlog::take_panics() {
        report.violate("C15", format!("panic@{}", loc.replace("/verif/repo/", "")), format!("panic in thread {}: {}", th, msg), vec![]);
    }
    RunResult {
        workload: "hostile".into(),
        class: class.into(),
        seed,
        params: json!({"build": if cfg!(feature = "benchmark") { "benchmark" } else { "default" }}),
        report,
        fingerprint: format!("{:016x}", seed),
        wall_ms: t0.elapsed().as_millis() as u64,
        virtual_ms: 0,
        sample: json!(samples),
        cases: frames.max(1),
        classes: classes.into_iter().collect(),
    }
}
