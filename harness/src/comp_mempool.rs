// C11 / C12: a real `Mempool::spawn` for one authority; every other authority's mempool port is
// played by the harness (acknowledging batches per policy); a client writes framed transactions to
// the transaction port. Oracles: conservation / order / seal rule / content addressing (C11) and
// "released only after a quorum acknowledged" (C12).
use crate::cluster::run_virtual;
use crate::evlog::{self, Kind, Parsed};
use crate::model::sha512_256;
use crate::monitors::Report;
use crate::net;
use crate::result::RunResult;
use crate::world::{addr, port, Scratch, Topo, SVC_MEMPOOL, SVC_TX, TAG_CLIENT};
use crate::Params;
use bytes::Bytes;
use crypto::Digest;
use futures::stream::StreamExt as _;
use futures::SinkExt as _;
use mempool::verif::MempoolMessage;
use mempool::{Mempool, Parameters as MParameters};
use network::simnet::{Dir, FrameDecision, TcpListener, TcpStream};
use rand::rngs::StdRng;
use rand::{Rng as _, SeedableRng as _};
use serde_json::json;
use std::collections::{BTreeSet, HashMap, HashSet};
use std::sync::{Arc, Mutex};
use store::Store;
use tokio::sync::mpsc::channel;
use tokio::time::{sleep, Duration};
use tokio_util::codec::{Framed, LengthDelimitedCodec};

#[derive(Clone, Debug)]
pub enum AckPolicy {
    /// Reply after this many ms.
    Delay(u64),
    /// Keep reading, never reply.
    Never,
    /// Cut the connection instead of acknowledging the first `n` batches, then behave.
    CutFirst(u64),
}

#[derive(Clone, Debug)]
pub struct Plan {
    pub n: usize,
    pub stakes: Vec<u32>,
    pub me: usize,
    pub batch_size: usize,
    pub max_batch_delay: u64,
    /// (delay before sending in ms, transaction bytes)
    pub txs: Vec<(u64, Vec<u8>)>,
    pub policies: Vec<AckPolicy>,
    /// Batches injected by a peer into the node's mempool port: (at ms, frame bytes).
    pub foreign: Vec<(u64, Vec<u8>)>,
    pub tail_ms: u64,
    /// Number of client connections the transactions are spread over (round robin).
    pub clients: usize,
}

pub struct Outcome {
    pub log: Vec<evlog::Ev>,
    /// (log seq, digest) in the order read from the mempool's channel to consensus.
    pub released: Vec<(u64, u64, Digest)>,
    pub store_content: HashMap<Digest, Option<Vec<u8>>>,
    pub topo: Arc<Topo>,
    pub store_path: String,
}

pub fn execute(plan: &Plan, seed: u64) -> Outcome {
    let plan = plan.clone();
    run_virtual(async move {
        evlog::begin();
        let ctl = net::install(seed);
        {
            let mut c = ctl.lock().unwrap();
            c.lo_ms = 1;
            c.hi_ms = 3;
            // CutFirst policy: the peer's Ack frames for its first n batches are cut.
            let policies = plan.policies.clone();
            let me = plan.me;
            let cut_counts: Arc<Mutex<HashMap<usize, u64>>> = Arc::new(Mutex::new(HashMap::new()));
            c.frame_hook = Some(Box::new(move |ctx, _rng| {
                if ctx.route.svc == SVC_MEMPOOL && ctx.dir == Dir::ToClient && ctx.route.src == me {
                    let peer = ctx.route.dst;
                    if let Some(AckPolicy::CutFirst(k)) = policies.get(peer) {
                        let mut g = cut_counts.lock().unwrap();
                        let e = g.entry(peer).or_insert(0);
                        if *e < *k {
                            *e += 1;
                            return Some(FrameDecision::CutBefore);
                        }
                    }
                }
                None
            }));
        }
        let topo = Arc::new(Topo::new(plan.n, plan.stakes.clone(), seed));
        let scratch = Scratch::new("mempool");
        let store_path = scratch.path("db");
        let store = Store::new(&store_path).expect("store");
        // ---- peers
        for j in 0..plan.n {
            if j == plan.me {
                continue;
            }
            let policy = plan.policies[j].clone();
            let listener = TcpListener::bind(std::net::SocketAddr::from(([0, 0, 0, 0], port(j, SVC_MEMPOOL)))).await.expect("bind");
            tokio::spawn(async move {
                loop {
                    let (socket, _) = match listener.accept().await {
                        Ok(x) => x,
                        Err(_) => return,
                    };
                    let policy = policy.clone();
                    tokio::spawn(async move {
                        let mut framed = Framed::new(socket, LengthDelimitedCodec::new());
                        while let Some(Ok(_frame)) = framed.next().await {
                            match policy {
                                AckPolicy::Never => {}
                                AckPolicy::Delay(ms) => {
                                    if ms > 0 {
                                        sleep(Duration::from_millis(ms)).await;
                                    }
                                    if framed.send(Bytes::from("Ack")).await.is_err() {
                                        break;
                                    }
                                }
                                AckPolicy::CutFirst(_) => {
                                    if framed.send(Bytes::from("Ack")).await.is_err() {
                                        break;
                                    }
                                }
                            }
                        }
                    });
                }
            });
        }
        // ---- the mempool under test
        let (_tx_c2m, rx_c2m) = channel(1_000);
        let (tx_m2c, mut rx_m2c) = channel::<Digest>(10_000);
        Mempool::spawn(
            topo.names[plan.me],
            topo.mempool_committee(plan.me),
            MParameters { gc_depth: 50, sync_retry_delay: 5_000, sync_retry_nodes: 3, batch_size: plan.batch_size, max_batch_delay: plan.max_batch_delay },
            store.clone(),
            rx_c2m,
            tx_m2c,
        );
        let released: Arc<Mutex<Vec<(u64, u64, Digest)>>> = Arc::new(Mutex::new(Vec::new()));
        let rel2 = released.clone();
        tokio::spawn(async move {
            while let Some(d) = rx_m2c.recv().await {
                let seq = evlog::push(Kind::Note { what: "released".into() });
                rel2.lock().unwrap().push((seq, evlog::now_us(), d));
            }
        });
        sleep(Duration::from_millis(5)).await;
        // ---- foreign batches (from the first peer)
        let foreign = plan.foreign.clone();
        let me = plan.me;
        let from = (0..plan.n).find(|j| *j != me);
        if let (Some(from), false) = (from, foreign.is_empty()) {
            tokio::spawn(async move {
                if let Ok(s) = TcpStream::connect(addr(from, me, SVC_MEMPOOL)).await {
                    let (mut sink, mut stream) = Framed::new(s, LengthDelimitedCodec::new()).split();
                    tokio::spawn(async move { while let Some(Ok(_)) = stream.next().await {} });
                    let mut now = 0;
                    for (at, bytes) in foreign {
                        if at > now {
                            sleep(Duration::from_millis(at - now)).await;
                            now = at;
                        }
                        let _ = sink.send(Bytes::from(bytes)).await;
                    }
                    sleep(Duration::from_millis(1_000_000)).await;
                }
            });
        }
        // ---- the client
        let mut conns = Vec::new();
        for k in 0..plan.clients.max(1) {
            let s = TcpStream::connect(addr(TAG_CLIENT + k, plan.me, SVC_TX)).await.expect("client connect");
            conns.push(Framed::new(s, LengthDelimitedCodec::new()));
        }
        for (i, (delay, tx)) in plan.txs.iter().enumerate() {
            if *delay > 0 {
                sleep(Duration::from_millis(*delay)).await;
            }
            evlog::push(Kind::Note { what: format!("client.tx {}", tx.len()) });
            let k = i % conns.len();
            if conns[k].send(Bytes::from(tx.clone())).await.is_err() {
                break;
            }
        }
        sleep(Duration::from_millis(plan.tail_ms)).await;
        // ---- read back the store for every released digest and every batch seen on the wire
        let rel = released.lock().unwrap().clone();
        let mut wanted: HashSet<Digest> = rel.iter().map(|x| x.2.clone()).collect();
        for ev in evlog::tail(0) {
            if let Kind::FrameOut { frame, .. } | Kind::FrameIn { frame } = &ev.kind {
                if let Parsed::Batch { digest, .. } = &frame.parsed {
                    wanted.insert(digest.clone());
                }
            }
        }
        let mut st = store.clone();
        let mut store_content = HashMap::new();
        for d in wanted {
            let v = st.read(d.to_vec()).await.expect("store read");
            store_content.insert(d, v);
        }
        let log = evlog::end();
        drop(conns);
        Outcome { log, released: rel, store_content, topo, store_path }
    })
}

pub fn judge(plan: &Plan, out: &Outcome, r: &mut Report, bench: bool) -> Vec<String> {
    let me = plan.me;
    let q = out.topo.quorum();
    let label = format!(
        "n={} stakes={:?} me={} batch_size={} max_delay={} txs={:?} policies={:?} build={}",
        plan.n,
        plan.stakes,
        me,
        plan.batch_size,
        plan.max_batch_delay,
        plan.txs.iter().map(|(d, t)| (*d, t.len())).take(40).collect::<Vec<_>>(),
        plan.policies,
        if bench { "benchmark" } else { "default" }
    );
    // Transactions as they became readable at the node's transaction port.
    let mut arrived: Vec<(u64, Vec<u8>)> = Vec::new(); // (vt_us, bytes)
    let mut arrived_by_conn: HashMap<u64, Vec<Vec<u8>>> = HashMap::new();
    // Own batches in order of first transmission; acks written by peers.
    let mut own_order: Vec<Digest> = Vec::new();
    let mut first_peer: Option<usize> = None;
    let mut seal_seq: Vec<(Digest, u64, u64)> = Vec::new();
    let mut own_first_tx: HashMap<Digest, (u64, u64)> = HashMap::new(); // digest -> (seq, vt_us)
    let mut batch_bytes: HashMap<Digest, Vec<u8>> = HashMap::new();
    let mut rx_at_peer: HashMap<(u64, u64), (usize, Digest)> = HashMap::new(); // (conn, idx) -> (peer, digest)
    let mut acks: HashMap<Digest, Vec<(u64, usize)>> = HashMap::new(); // digest -> (seq of ack written, peer)
    let mut foreign_seen: Vec<Digest> = Vec::new();
    let mut store_writes: HashMap<Vec<u8>, u64> = HashMap::new();
    for ev in &out.log {
        match &ev.kind {
            Kind::FrameIn { frame } if frame.route.svc == SVC_TX && frame.route.dst == me && frame.dir == Dir::ToServer => {
                arrived.push((ev.vt_us, frame.data.to_vec()));
                arrived_by_conn.entry(frame.conn).or_default().push(frame.data.to_vec());
            }
            Kind::FrameOut { frame, .. } if frame.route.svc == SVC_MEMPOOL && frame.dir == Dir::ToServer && frame.route.src == me => {
                if let Parsed::Batch { digest, .. } = &frame.parsed {
                    // Two sealed batches may be byte-identical (same digest): the seal sequence is
                    // the sequence of batch frames written to one fixed peer (each batch is broadcast
                    // once to every peer; retransmissions only happen under connection faults, which
                    // the C11 workload does not inject).
                    let p0 = *first_peer.get_or_insert(frame.route.dst);
                    if frame.route.dst == p0 {
                        seal_seq.push((digest.clone(), ev.seq, ev.vt_us));
                    }
                    if !own_first_tx.contains_key(digest) {
                        own_first_tx.insert(digest.clone(), (ev.seq, ev.vt_us));
                        own_order.push(digest.clone());
                        batch_bytes.insert(digest.clone(), frame.data.to_vec());
                    }
                }
            }
            Kind::FrameIn { frame } if frame.route.svc == SVC_MEMPOOL && frame.dir == Dir::ToServer && frame.route.src == me => {
                if let Parsed::Batch { digest, .. } = &frame.parsed {
                    rx_at_peer.insert((frame.conn, frame.idx), (frame.route.dst, digest.clone()));
                }
            }
            Kind::FrameOut { frame, lost } if frame.route.svc == SVC_MEMPOOL && frame.dir == Dir::ToClient && frame.route.src == me => {
                // The k-th reply on a connection answers the k-th frame received on it.
                if !*lost {
                    if let Some((peer, digest)) = rx_at_peer.get(&(frame.conn, frame.idx)) {
                        acks.entry(digest.clone()).or_default().push((ev.seq, *peer));
                    }
                }
            }
            Kind::FrameIn { frame } if frame.route.svc == SVC_MEMPOOL && frame.dir == Dir::ToServer && frame.route.dst == me => {
                foreign_seen.push(sha512_256(&frame.data));
                batch_bytes.insert(sha512_256(&frame.data), frame.data.to_vec());
            }
            Kind::StoreWrite { key, .. } => {
                store_writes.entry(key.clone()).or_insert(ev.seq);
            }
            _ => {}
        }
    }
    let released_own: Vec<&(u64, u64, Digest)> = out.released.iter().filter(|x| own_first_tx.contains_key(&x.2)).collect();
    r.count("C11.transactions_sent", plan.txs.len() as u64);
    r.count("C11.transactions_arrived", arrived.len() as u64);
    r.count("C11.batches_sealed", own_order.len() as u64);
    r.count("C12.own_batches_released", released_own.len() as u64);

    // ---------------- C11: conservation and order (batches in seal order) ----------------
    let mut flat: Vec<Vec<u8>> = Vec::new();
    let mut per_batch: Vec<(Digest, Vec<Vec<u8>>, u64)> = Vec::new();
    let faults_injected = plan.policies.iter().any(|p| !matches!(p, AckPolicy::Delay(_)));
    let seals: Vec<(Digest, u64, u64)> = if faults_injected { own_order.iter().map(|d| (d.clone(), own_first_tx[d].0, own_first_tx[d].1)).collect() } else { seal_seq.clone() };
    for (d, _, sealed_at) in &seals {
        match bincode::deserialize::<MempoolMessage>(&batch_bytes[d]) {
            Ok(MempoolMessage::Batch(txs)) => {
                flat.extend(txs.iter().cloned());
                per_batch.push((d.clone(), txs, *sealed_at));
            }
            _ => r.violate("C11", "sealed-batch-undecodable", "a batch frame sent by the node does not decode as a batch".to_string(), vec![label.clone()]),
        }
    }
    let sent: Vec<Vec<u8>> = arrived.iter().map(|x| x.1.clone()).collect();
    if faults_injected && flat.len() != sent.len() {
        // With connection faults the per-peer frame sequence contains retransmissions and the
        // digest-deduplicated sequence merges byte-identical batches: conservation is C11's
        // business in the fault-free workload only.
        r.count("C11.conservation_not_judged_under_faults", 1);
    } else if plan.clients > 1 {
        // Several connections: the order in which frames of different connections reach the batch
        // maker is the scheduler's choice; required are multiset equality and per-connection order.
        let mut a = flat.clone();
        let mut b = sent.clone();
        a.sort();
        b.sort();
        if a != b {
            r.violate("C11", "transactions-not-conserved", format!("{} transactions accepted over {} connections, {} found in batches (multiset differs)", sent.len(), plan.clients, flat.len()), vec![label.clone()]);
        } else {
            r.count("C11.transactions_conserved_multiset", flat.len() as u64);
            r.sit("C11:several_client_connections");
        }
        for (conn, txs) in &arrived_by_conn {
            // transactions of this connection that are unique in the whole run identify themselves
            let uniq: Vec<&Vec<u8>> = txs.iter().filter(|t| sent.iter().filter(|x| x == t).count() == 1).collect();
            let set: HashSet<&Vec<u8>> = uniq.iter().cloned().collect();
            let seen: Vec<&Vec<u8>> = flat.iter().filter(|t| set.contains(t)).collect();
            if seen != uniq {
                r.violate("C11", "per-connection-order-broken", format!("transactions of client connection {} appear in the batches in a different order than they were accepted", conn), vec![label.clone()]);
            }
        }
    } else if flat != sent {
        // classify
        let what = if flat.len() < sent.len() && sent.starts_with(&flat) {
            format!("the last {} of {} accepted transactions are in no batch", sent.len() - flat.len(), sent.len())
        } else if flat.len() == sent.len() {
            let pos = flat.iter().zip(sent.iter()).position(|(a, b)| a != b).unwrap_or(0);
            format!("transaction #{} differs or is out of order", pos)
        } else {
            format!("{} transactions accepted, {} found in batches (loss, duplication or reordering)", sent.len(), flat.len())
        };
        r.violate("C11", "transactions-not-conserved", what, vec![label.clone(), format!("accepted sizes {:?}", sent.iter().map(|t| t.len()).take(60).collect::<Vec<_>>()), format!("batched sizes  {:?}", per_batch.iter().map(|(_, b, _)| b.iter().map(|t| t.len()).collect::<Vec<_>>()).take(30).collect::<Vec<_>>())]);
    } else {
        r.count("C11.transactions_conserved_in_order", flat.len() as u64);
    }
    // ---------------- C11: seal rule ----------------
    let mut cursor = 0usize;
    for (_d, txs, sealed_at) in per_batch.iter().filter(|_| plan.clients <= 1) {
        let size: usize = txs.iter().map(|t| t.len()).sum();
        let sealed_at = *sealed_at;
        if txs.is_empty() {
            r.violate("C11", "empty-batch-sealed", "an empty batch was sealed".to_string(), vec![label.clone()]);
            continue;
        }
        let first_arrival = arrived.get(cursor).map(|x| x.0).unwrap_or(0);
        let last_arrival = arrived.get(cursor + txs.len() - 1).map(|x| x.0).unwrap_or(0);
        cursor += txs.len();
        let size_before_last = size - txs.last().unwrap().len();
        if size >= plan.batch_size {
            r.count("C11.sealed_by_size", 1);
            r.sit("C11:sealed_by_size");
            if size_before_last >= plan.batch_size {
                r.violate("C11", "size-seal-late", format!("a batch of {} B was sealed although it had already reached {} B (threshold {}) one transaction earlier", size, size_before_last, plan.batch_size), vec![label.clone()]);
            }
            // sealed as soon as the crossing transaction arrived (+ network hop of the broadcast)
            if sealed_at > last_arrival + 10_000 {
                r.violate("C11", "size-seal-delayed", format!("threshold crossed at {} us but batch sent at {} us", last_arrival, sealed_at), vec![label.clone()]);
            }
        } else {
            r.count("C11.sealed_by_timer", 1);
            r.sit("C11:sealed_by_timer");
        }
        // every transaction is in a batch sent no later than its arrival + max_batch_delay
        let bound = first_arrival + (plan.max_batch_delay + 10) * 1000;
        if sealed_at > bound {
            r.violate(
                "C11",
                "seal-later-than-max-delay",
                format!("a transaction that arrived at {} us was only sealed at {} us (max_batch_delay {} ms)", first_arrival, sealed_at, plan.max_batch_delay),
                vec![label.clone()],
            );
        }
    }
    // ---------------- C11: content addressing ----------------
    for (_, _, d) in &out.released {
        r.count("C11.released_digests_checked", 1);
        match out.store_content.get(d) {
            Some(Some(bytes)) => {
                if sha512_256(bytes) != *d {
                    r.violate("C11", "stored-under-wrong-key", "the bytes stored under a released digest do not hash to it".to_string(), vec![label.clone()]);
                }
                if let Some(orig) = batch_bytes.get(d) {
                    if orig != bytes {
                        r.violate("C11", "stored-bytes-differ", "the stored batch differs from the bytes sent / received on the wire".to_string(), vec![label.clone()]);
                    }
                } else {
                    r.violate("C11", "released-digest-of-unknown-batch", "a digest was announced that is the hash of no batch seen on the wire".to_string(), vec![label.clone()]);
                }
            }
            _ => r.violate("C11", "released-digest-not-in-store", "a digest was announced to consensus but the store has nothing under it".to_string(), vec![label.clone()]),
        }
    }
    let released_set: HashSet<Digest> = out.released.iter().map(|x| x.2.clone()).collect();
    for d in &foreign_seen {
        r.count("C11.received_batches_checked", 1);
        let decodes = matches!(bincode::deserialize::<MempoolMessage>(&batch_bytes[d]), Ok(MempoolMessage::Batch(_)));
        if decodes && !released_set.contains(d) {
            r.violate("C11", "received-batch-not-announced-under-its-hash", "a batch received from a peer was not announced under the hash of its exact bytes".to_string(), vec![label.clone()]);
        }
        if decodes {
            r.sit("C11:received_batch");
        }
    }
    // ---------------- C12 ----------------
    let my_stake = out.topo.stakes[me] as u64;
    for (seq, _, d) in &released_own {
        r.count("C12.releases_checked", 1);
        let mut peers: HashSet<usize> = HashSet::new();
        for (aseq, peer) in acks.get(d).cloned().unwrap_or_default() {
            if aseq < *seq {
                peers.insert(peer);
            }
        }
        let w: u64 = my_stake + peers.iter().map(|p| out.topo.stakes[*p] as u64).sum::<u64>();
        if w < q {
            r.violate(
                "C12",
                "released-before-quorum",
                format!("own batch released with acknowledged stake {} (self {} + peers {:?}) below the quorum {}", w, my_stake, peers, q),
                vec![label.clone()],
            );
        } else {
            let slack = w - q;
            r.max("max.C12.neg_min_slack_plus_1000", 1000 - slack.min(1000));
            if slack == 0 {
                r.sit("C12:released_exactly_at_threshold");
            }
        }
        // The store write of the own batch must not precede the quorum either.
        if let Some(wseq) = store_writes.get(&d.to_vec()) {
            let mut peers2: HashSet<usize> = HashSet::new();
            for (aseq, peer) in acks.get(d).cloned().unwrap_or_default() {
                if aseq < *wseq {
                    peers2.insert(peer);
                }
            }
            let w2: u64 = my_stake + peers2.iter().map(|p| out.topo.stakes[*p] as u64).sum::<u64>();
            if w2 < q {
                r.violate("C12", "stored-before-quorum", format!("own batch stored with acknowledged stake {} below the quorum {}", w2, q), vec![label.clone()]);
            }
        }
    }
    if plan.policies.iter().enumerate().any(|(j, p)| j != me && matches!(p, AckPolicy::Never)) && !released_own.is_empty() {
        r.sit("C12:release_with_silent_peer");
    }
    // own batches never released although a quorum acknowledged (secondary, evidence only)
    let unreleased = own_order.iter().filter(|d| !released_set.contains(*d)).count();
    r.count("C12.own_batches_not_released", unreleased as u64);
    vec![label]
}

fn make_tx(rng: &mut StdRng, len: usize, first_zero: bool) -> Vec<u8> {
    let mut t: Vec<u8> = (0..len).map(|_| rng.gen()).collect();
    if len > 0 {
        t[0] = if first_zero { 0 } else { rng.gen_range(1, 256) as u8 };
    }
    t
}

pub fn plan_c11(rng: &mut StdRng) -> Plan {
    let n = rng.gen_range(2, 6);
    let batch_size = [1usize, 10, 200, 15_000][rng.gen_range(0, 4)];
    let max_batch_delay = [1u64, 10, 100][rng.gen_range(0, 3)];
    let count = rng.gen_range(1, 60);
    let mut txs = Vec::new();
    let pattern = rng.gen_range(0, 4);
    for _ in 0..count {
        let len = match rng.gen_range(0, 12) {
            0 => 0,
            1 => 1,
            2 => 8,
            3 => 9,
            4 => batch_size.saturating_sub(1),
            5 => batch_size,
            6 => batch_size + 1,
            7 => (batch_size * rng.gen_range(2, 4)).min(40_000),
            _ => rng.gen_range(0, (2 * batch_size).min(3000) + 2),
        };
        let delay = match pattern {
            0 => 0,
            1 => rng.gen_range(0, 3),
            2 => [0, 0, 0, max_batch_delay, max_batch_delay + 1, max_batch_delay.saturating_sub(1), 3 * max_batch_delay][rng.gen_range(0, 7)],
            _ => rng.gen_range(0, 2 * max_batch_delay + 2),
        };
        let fz = rng.gen_bool(0.3);
        txs.push((delay, make_tx(rng, len, fz)));
    }
    let mut foreign = Vec::new();
    if rng.gen_bool(0.5) {
        for k in 0..rng.gen_range(1, 4) {
            let batch: Vec<Vec<u8>> = (0..rng.gen_range(0, 5)).map(|_| { let l = rng.gen_range(0, 50); make_tx(rng, l, false) }).collect();
            let mut bytes = bincode::serialize(&MempoolMessage::Batch(batch)).unwrap();
            if rng.gen_bool(0.5) {
                // trailing bytes after the bincode value: the node must hash what it received
                bytes.extend_from_slice(&[0xAB; 7]);
            }
            foreign.push((k * 13 + 2, bytes));
        }
    }
    Plan {
        n,
        stakes: vec![1; n],
        me: rng.gen_range(0, n),
        batch_size,
        max_batch_delay,
        txs,
        policies: vec![AckPolicy::Delay(0); n],
        foreign,
        tail_ms: 20 * max_batch_delay + 2_000,
        clients: if rng.gen_bool(0.3) { rng.gen_range(2, 4) } else { 1 },
    }
}

pub fn plan_c12(rng: &mut StdRng) -> Plan {
    let n = rng.gen_range(2, 11);
    let me = rng.gen_range(0, n);
    let stakes: Vec<u32> = match rng.gen_range(0, 5) {
        0 => vec![1; n],
        1 => (0..n).map(|_| rng.gen_range(1, 6)).collect(),
        2 => {
            // one dominant peer
            let mut s = vec![1; n];
            let k = (me + 1) % n;
            s[k] = n as u32;
            s
        }
        3 => {
            // dominant self
            let mut s = vec![1; n];
            s[me] = 2 * n as u32;
            s
        }
        _ => {
            let mut s: Vec<u32> = (0..n).map(|_| rng.gen_range(0, 3)).collect();
            s[me] = s[me].max(1);
            s
        }
    };
    let policies: Vec<AckPolicy> = (0..n)
        .map(|_| match rng.gen_range(0, 10) {
            0..=4 => AckPolicy::Delay(rng.gen_range(0, 400)),
            5 | 6 => AckPolicy::Never,
            7 => AckPolicy::CutFirst(rng.gen_range(1, 4)),
            _ => AckPolicy::Delay(0),
        })
        .collect();
    let batch_size = [1usize, 50, 400][rng.gen_range(0, 3)];
    let count = rng.gen_range(1, 25);
    let txs = (0..count).map(|_| ([0u64, 0, 1, 30, 200][rng.gen_range(0, 5)], { let l = rng.gen_range(1, 120); make_tx(rng, l, false) })).collect();
    Plan { n, stakes, me, batch_size, max_batch_delay: [5u64, 50][rng.gen_range(0, 2)], txs, policies, foreign: vec![], tail_ms: 70_000, clients: 1 }
}

pub fn run(workload: &str, class: &str, seed: u64, p: &Params) -> RunResult {
    let t0 = std::time::Instant::now();
    let mut report = Report::default();
    let mut classes: BTreeSet<String> = BTreeSet::new();
    let mut samples = Vec::new();
    let mut cases = 0u64;
    let bench = cfg!(feature = "benchmark");
    let mut rng = StdRng::seed_from_u64(seed ^ 0xc11);
    for i in 0..p.get_u64("scenarios").unwrap_or(20) {
        let plan = if workload == "c11" { plan_c11(&mut rng) } else { plan_c12(&mut rng) };
        let out = execute(&plan, seed.wrapping_add(i));
        let before = report.violations.len();
        let label = judge(&plan, &out, &mut report, bench);
        for (loc, msg, th) in evlog::take_panics() {
            report.violate("C15", format!("panic@{}", loc), format!("panic in thread {}: {}", th, msg), vec![label[0].clone()]);
            if workload == "c11" {
                report.violate("C11", format!("panic-in-batching-path@{}", loc), format!("panic in thread {}: {}", th, msg), vec![label[0].clone()]);
            }
        }
        let _ = std::fs::remove_dir_all(&out.store_path);
        cases += 1;
        if workload == "c11" {
            let sizes: BTreeSet<&str> = plan
                .txs
                .iter()
                .map(|(_, t)| match t.len() {
                    0 => "empty",
                    1..=8 => "le8",
                    9 => "nine",
                    x if x + 1 == plan.batch_size => "size-1",
                    x if x == plan.batch_size => "size",
                    x if x == plan.batch_size + 1 => "size+1",
                    x if x > plan.batch_size => "multi",
                    _ => "small",
                })
                .collect();
            for s in sizes {
                classes.insert(format!("{}/bs{}/delay{}/{}", if bench { "bench" } else { "default" }, plan.batch_size, plan.max_batch_delay, s));
            }
        } else {
            let pol: BTreeSet<String> = plan.policies.iter().map(|p| match p { AckPolicy::Delay(0) => "now".into(), AckPolicy::Delay(_) => "delay".into(), AckPolicy::Never => "never".into(), AckPolicy::CutFirst(_) => "cut".to_string() }).collect();
            classes.insert(format!("n{}/{}/selfstake{}", plan.n, pol.into_iter().collect::<Vec<_>>().join("+"), plan.stakes[plan.me].min(3)));
        }
        if samples.len() < 2 && (report.violations.len() > before || i == 1) {
            samples.push(json!({"plan": label, "released": out.released.len()}));
        }
    }
    report.count(&format!("{}.scenarios", workload.to_uppercase()), cases);
    RunResult {
        workload: workload.into(),
        class: class.into(),
        seed,
        params: json!({"build": if bench { "benchmark" } else { "default" }}),
        report,
        fingerprint: format!("{:016x}", seed),
        wall_ms: t0.elapsed().as_millis() as u64,
        virtual_ms: 0,
        sample: json!(samples),
        cases,
        classes: classes.into_iter().collect(),
    }
}
