"""Workload plans per property and tier; non-triviality rules and coverage floors.

A plan entry is {workload, class, count, per_process, params, bench}; `count` scenarios are run
with consecutive seeds derived from VERIF_SEED, `per_process` of them per worker process.
"""


def J(workload, cls, count, per_process=8, bench=False, **params):
    return {"workload": workload, "class": cls, "count": count, "per_process": per_process, "params": params, "bench": bench}


# Situations that make a run non-trivial for a property (any one of them suffices); a property
# with an empty list counts every run that evaluated its oracle at least once.
NONTRIVIAL = {
    "C02": ["C02:multi_block_commit", "C02:round_gap_in_sequence", "C02:first_block_round_gt_1"],
    "C06": ["C06:with_crash", "C06:async_then_stable"],
    "C07": ["C07:gap_of_2plus_blocks"],
    "C03": ["C03:second_proposal_after_vote", "C03:proposal_after_own_timeout", "C03:unsafe_extension_offered", "C03:vote_via_tc"],
    "C05": ["C05:certified_2chain_with_gap_shown", "C05:commit_as_ancestor"],
    "C08": ["C08:vote_with_payload", "C08:commit_with_payload"],
    "C10": ["C10:jump_gt_1", "C10:advance_by_tc"],
}

PUPPET_DIRECTED = ["d01", "d02", "d03", "d04", "d07", "d09", "d10", "d15", "d17", "d18"]


def puppet_mix(rand_count, directed_each, **params):
    """Random puppet scripts plus every directed script."""
    return [J("puppet", "rand", rand_count, per_process=10, **params)] + [J("puppet", c, directed_each, per_process=6, **params) for c in PUPPET_DIRECTED]


def cluster_mix(each, **params):
    return [J("cluster", c, each, per_process=6, **params) for c in ("s2", "s3", "s4")]


C06_PARAMS = dict(timeout_ms=1000, hi_ms=50, sync_retry_ms=1000, duration_ms=250000)

PLANS = {
    "C02": {
        "level": "exploration",
        "rule": "cluster runs (real nodes on the simulated network, virtual time) of classes s2 crash / s3 async-then-stable / s4 partition-heal; a run is non-trivial if some commit delivered >= 2 blocks, the delivered sequence has a round gap, or the first delivered block has round > 1; distinct = distinct fingerprints of the per-node Core event sequences",
        "assumptions": ["simulated transport preserves per-connection FIFO byte streams", "commit channel read by the harness task is the application boundary"],
        "quick": cluster_mix(64) + puppet_mix(320, 12),
        "thorough": cluster_mix(1500) + puppet_mix(20000, 400),
    },
    "C03": {
        "level": "exploration",
        "rule": "puppet-mode scripts (one real node, harness holds the other n-1 keys: random scripts over {extend, view change, timer expiry, equivocation, unsafe extension, withheld parent, missing payload, invalid variant, replay} and the directed catalogue d01..d18) plus cluster runs; non-trivial = the node was offered a second proposal after voting, a proposal after its own timeout, an unsafe extension, or voted through the TC branch; distinct = distinct Core-event fingerprints",
        "assumptions": ["hook events Vote/Timeout are emitted synchronously inside Core (program order)", "cross-checked against validly signed votes on the wire and the signature-service tap"],
        "quick": puppet_mix(640, 24) + cluster_mix(32),
        "thorough": puppet_mix(40000, 800) + cluster_mix(1000),
    },
    "C05": {
        "level": "exploration",
        "rule": "same workloads as C03; oracle: every commit of the real node is justified by a consecutive-round pair b0<-b1 among blocks delivered to it with a valid QC for b1 among certificates delivered to / assembled by it; non-trivial = the node was shown a certified 2-chain with a round gap, or committed a block as an ancestor; distinct = distinct Core-event fingerprints",
        "assumptions": ["puppet histories keep all certified consecutive 2-chains on one chain (generator-enforced)"],
        "quick": puppet_mix(480, 16) + cluster_mix(48),
        "thorough": puppet_mix(30000, 600) + cluster_mix(1200),
    },
    "C08": {
        "level": "exploration",
        "rule": "puppet scripts with payloads that are present / partially missing / arriving later / never arriving (d18, rand) plus cluster runs; oracle: at every vote for a foreign block and every commit, each payload digest has an earlier store-write event on that node's store; non-trivial = a vote or commit with non-empty payload",
        "assumptions": ["store-write hook fires inside the store task right after db.put"],
        "quick": [J("puppet", "d18", 160, per_process=8), J("puppet", "rand", 480, per_process=10), J("puppet", "d10", 48, per_process=8)],
        "thorough": [J("puppet", "d18", 6000, per_process=20), J("puppet", "rand", 30000, per_process=20), J("puppet", "d10", 2000, per_process=20)],
    },
    "C10": {
        "level": "exploration",
        "rule": "same workloads as C03; oracle over Core's round-advance and timeout events against certificates delivered to / assembled by the node; non-trivial = a round jump > 1 or an advance justified by a TC only",
        "assumptions": ["a certificate counts as held once the frame carrying it became readable by the node"],
        "quick": puppet_mix(480, 16) + cluster_mix(48),
        "thorough": puppet_mix(30000, 600) + cluster_mix(1200),
    },
    "C06": {
        "level": "exploration",
        "rule": "cluster runs with <= f crashed nodes (s2) or heavy pre-GST delays (s3); oracle: every live node's highest committed round grows in every window W = 6(f+1)*timeout + sync_retry + 2*5s after stabilisation; non-trivial = run with a crash or with an asynchronous prefix; distinct = distinct Core-event fingerprints",
        "assumptions": ["bounded restatement of liveness (DESIGN.md C06)", "no frame between live nodes is lost; delays <= timeout/10 after GST"],
        "quick": [J("cluster", "s2", 64, per_process=4, **C06_PARAMS), J("cluster", "s3", 64, per_process=4, **C06_PARAMS), J("cluster", "s2", 32, per_process=4, equal_stakes=1, **C06_PARAMS)],
        "thorough": [J("cluster", "s2", 2000, **C06_PARAMS), J("cluster", "s3", 2000, **C06_PARAMS)],
    },
    "C07": {
        "level": "fault_enumeration",
        "rule": "cluster runs of class s4 (single-node isolation / minority split for 1..20 timeouts, then heal and a quiet settling period); non-trivial = the others committed >= 2 rounds while the victim was cut off; distinct = distinct Core-event fingerprints",
        "assumptions": ["links are loss-free after the heal"],
        "quick": [J("cluster", "s4", 192, duration_ms=90000)],
        "thorough": [J("cluster", "s4", 3000, duration_ms=90000)],
    },
}


def nontrivial(pid, res, sits):
    want = NONTRIVIAL.get(pid)
    if want is None:
        c = res.get("counters", {})
        return any(k.startswith(pid + ".") and v > 0 for k, v in c.items())
    return any(s in want for s in sits)


# Coverage floors: (counter or situation, minimum) that the unchanged tree meets deterministically.
FLOORS = {
    "C02": {"quick": {"C02.links_ok": 1000, "sit:C02:multi_block_commit": 5, "sit:C02:commit_with_2plus_ancestors": 3, "sit:C02:first_block_round_gt_1": 3}},
    "C03": {"quick": {"C03.votes_checked": 2000, "sit:C03:second_proposal_after_vote": 5, "sit:C03:proposal_after_own_timeout": 5, "sit:C03:unsafe_extension_offered": 5, "sit:C03:vote_via_tc": 5}},
    "C05": {"quick": {"C05.commits_checked": 1000, "sit:C05:certified_2chain_with_gap_shown": 5}},
    "C08": {"quick": {"C08.votes_with_payload_checked": 100, "C08.commits_with_payload_checked": 100}},
    "C10": {"quick": {"C10.round_advances_checked": 2000, "C10.timeouts_checked": 50, "sit:C10:jump_gt_1": 5, "sit:C10:advance_by_tc": 5}},
    "C06": {"quick": {"C06.windows_checked": 500}},
    "C07": {"quick": {"C07.recoveries_checked": 20}},
}


def floors(pid, tier, counters, situations, runs):
    problems = []
    if runs == 0:
        problems.append("no run completed")
    fl = FLOORS.get(pid, {}).get("quick", {})
    for k, minimum in fl.items():
        if k.startswith("sit:"):
            got = situations.get(k[4:], 0)
        else:
            got = counters.get(k, 0)
        if got < minimum:
            problems.append("%s = %s < %s" % (k, got, minimum))
    return problems


# ---------------------------------------------------------------------------------------------
# Manifest metadata per claimed property.
def M(engine, technique, level_text, level_note):
    return {"engine": engine, "technique": technique, "level_text": level_text, "level_note": level_note}


META = {
    "C02": M(
        "cluster",
        "offline trace monitor over the commit-channel sequence of every real node",
        "Held on the executions produced: the exact sequence each real node wrote to its commit channel is checked link by link (parent = previous, no repeat, no genesis, rounds increase) in hundreds of crash / asynchrony / partition runs whose chains contain view-change gaps and multi-ancestor commits. Sampling of schedules, not coverage.",
        "Trusted: the simulated transport (FIFO byte streams, resets), the harness task reading the commit channel, the repository's digest(). Runs are sampled; n <= 7.",
    ),
    "C06": M(
        "cluster",
        "bounded-progress window monitor in virtual time over commit events",
        "Bounded restatement of liveness: with <= f crashed (and three consecutive live leaders in the rotation) and delays <= timeout/10 after GST, every live node's committed round grows in every window W = 6(f+1) timeouts + sync_retry + 10 s. Held within the bound on the runs made; not a proof of liveness.",
        "Premises are enforced by the scenario generator (no loss between live nodes, delay bound after GST); runs whose plan misses the premise are inconclusive. Slowdowns below the window are invisible.",
    ),
    "C07": M(
        "cluster",
        "fault-injection scenarios (isolate / split, heal) with offline convergence, sync-reply and store-order monitors",
        "Isolation intervals (node, start, length) are sampled; after the heal and a settling period the victim must have reached what the others had committed at reconnection, agree with them round by round, every helper reply must be byte-identical to the original proposal and have been requested, and blocks are stored parent-first.",
        "Links are loss-free after the heal; the fault space is sampled per run (enumeration over node x start x length happens across seeds).",
    ),
}

NOT_CLAIMED = {}
