"""Workload plans per property and tier; non-triviality rules and coverage floors.

A plan entry is {workload, class, count, per_process, params, bench}; `count` scenarios are run
with consecutive seeds derived from VERIF_SEED, `per_process` of them per worker process.
"""


def J(workload, cls, count, per_process=8, bench=False, **params):
    return {"workload": workload, "class": cls, "count": count, "per_process": per_process, "params": params, "bench": bench}


# Situations that make a run non-trivial for a property (any one of them suffices); a property
# with an empty list counts every run that evaluated its oracle at least once.
NONTRIVIAL = {
    "C01": ["C01:byzantine_actions_view_change_and_commits"],
    "C13": ["C13:on_demand_batch_fetch", "C13:fault_free_end_to_end", "C13:retry_to_other_peers_observed"],
    "C11": ["C11:sealed_by_size", "C11:sealed_by_timer"],
    "C12": ["C12:release_with_silent_peer", "C12:released_exactly_at_threshold"],
    "C16": ["C16:concurrent_writers_and_early_waiter"],
    "C02": ["C02:multi_block_commit", "C02:round_gap_in_sequence", "C02:first_block_round_gt_1"],
    "C06": ["C06:with_crash", "C06:async_then_stable", "C06:late_boot_timers_out_of_phase"],
    "C07": ["C07:gap_of_2plus_blocks", "C07:retry_observed", "C07:first_sync_target_silent"],
    "C03": ["C03:second_proposal_after_vote", "C03:proposal_after_own_timeout", "C03:unsafe_extension_offered", "C03:vote_via_tc"],
    "C05": ["C05:certified_2chain_with_gap_shown", "C05:commit_as_ancestor"],
    "C08": ["C08:vote_with_payload", "C08:commit_with_payload"],
    "C10": ["C10:jump_gt_1", "C10:advance_by_tc"],
    "C04": ["C04:invalid_input_processed"],
}

PUPPET_DIRECTED = ["d01", "d02", "d03", "d04", "d07", "d09", "d10", "d13", "d15", "d17", "d18", "d19", "d20", "d21"]


def puppet_mix(rand_count, directed_each, **params):
    """Random puppet scripts plus every directed script."""
    return [J("puppet", "rand", rand_count, per_process=10, **params)] + [J("puppet", c, directed_each, per_process=6, **params) for c in PUPPET_DIRECTED]


def cluster_mix(each, **params):
    return [J("cluster", c, each, per_process=6, **params) for c in ("s2", "s3", "s4")]


def byz_mix(each, **params):
    """Cluster runs with a Byzantine adversary (the always-on monitors judge every honest node)."""
    return [J("byz", c, each, per_process=4, **params) for c in ("s5", "s6", "s7", "s8")]


C06_PARAMS = dict(timeout_ms=1000, hi_ms=50, sync_retry_ms=1000, duration_ms=200000)

PLANS = {
    "C02": {
        "level": "exploration",
        "rule": "cluster runs (real nodes on the simulated network, virtual time) of classes s2 crash / s3 async-then-stable / s4 partition-heal; a run is non-trivial if some commit delivered >= 2 blocks, the delivered sequence has a round gap, or the first delivered block has round > 1; distinct = distinct fingerprints of the per-node Core event sequences",
        "assumptions": ["simulated transport preserves per-connection FIFO byte streams", "commit channel read by the harness task is the application boundary"],
        "quick": cluster_mix(48) + puppet_mix(320, 12) + byz_mix(12),
        "thorough": cluster_mix(1500) + puppet_mix(20000, 400) + byz_mix(500),
    },
    "C03": {
        "level": "exploration",
        "rule": "puppet-mode scripts (one real node, harness holds the other n-1 keys: random scripts over {extend, view change, timer expiry, equivocation, unsafe extension, withheld parent, missing payload, invalid variant, replay} and the directed catalogue d01..d18) plus cluster runs; non-trivial = the node was offered a second proposal after voting, a proposal after its own timeout, an unsafe extension, or voted through the TC branch; distinct = distinct Core-event fingerprints",
        "assumptions": ["hook events Vote/Timeout are emitted synchronously inside Core (program order)", "cross-checked against validly signed votes on the wire and the signature-service tap"],
        "quick": puppet_mix(640, 24) + cluster_mix(24) + byz_mix(12),
        "thorough": puppet_mix(40000, 800) + cluster_mix(1000) + byz_mix(500),
    },
    "C05": {
        "level": "exploration",
        "rule": "same workloads as C03; oracle: every commit of the real node is justified by a consecutive-round pair b0<-b1 among blocks delivered to it with a valid QC for b1 among certificates delivered to / assembled by it; non-trivial = the node was shown a certified 2-chain with a round gap, or committed a block as an ancestor; distinct = distinct Core-event fingerprints",
        "assumptions": ["puppet histories keep all certified consecutive 2-chains on one chain (generator-enforced)"],
        "quick": puppet_mix(480, 16) + cluster_mix(32) + byz_mix(16),
        "thorough": puppet_mix(30000, 600) + cluster_mix(1200) + byz_mix(600),
    },
    "C08": {
        "level": "exploration",
        "rule": "puppet scripts with payloads that are present / partially missing / arriving later / never arriving (d18, rand) plus cluster runs; oracle: at every vote for a foreign block and every commit, each payload digest has an earlier store-write event on that node's store; non-trivial = a vote or commit with non-empty payload",
        "assumptions": ["store-write hook fires inside the store task right after db.put"],
        "quick": [J("puppet", "d18", 160, per_process=8), J("puppet", "rand", 480, per_process=10), J("puppet", "d10", 48, per_process=8), J("puppet", "d20", 64, per_process=8), J("puppet", "d13", 32, per_process=8)] + byz_mix(8),
        "thorough": [J("puppet", "d18", 6000, per_process=20), J("puppet", "rand", 30000, per_process=20), J("puppet", "d10", 2000, per_process=20), J("puppet", "d20", 3000, per_process=20), J("puppet", "d13", 1000, per_process=20)] + byz_mix(400),
    },
    "C10": {
        "level": "exploration",
        "rule": "same workloads as C03; oracle over Core's round-advance and timeout events against certificates delivered to / assembled by the node; non-trivial = a round jump > 1 or an advance justified by a TC only",
        "assumptions": ["a certificate counts as held once the frame carrying it became readable by the node"],
        "quick": puppet_mix(480, 16) + cluster_mix(32) + byz_mix(12),
        "thorough": puppet_mix(30000, 600) + cluster_mix(1200) + byz_mix(600),
    },
    "C06": {
        "level": "exploration",
        "rule": "cluster runs with <= f crashed nodes (s2), heavy pre-GST delays (s3), late-booting nodes whose round timers are out of phase, and s2b: round-1 leader absent + one node booting 0.80..0.98 of a timeout late, in half of the runs with proposals slower (timeout/20..timeout/10) than all other messages (1..10 ms), and s3c: heavy pre-GST delays where the last tolerated crash hits the first node that broadcasts a timeout certificate, 20..400 ms after it started (the certificate travels fast on about half of its links and is lost in flight on the others); oracle: every live node's highest committed round grows in every window W = 6(f+1)*timeout + sync_retry + 2*5s after stabilisation, and (local obligation, always on) a node that enters a round it leads through a timeout certificate proposes before it leaves that round or times out in it; non-trivial = run with a crash or with an asynchronous prefix; distinct = distinct Core-event fingerprints",
        "assumptions": ["bounded restatement of liveness (DESIGN.md C06)", "no frame between live nodes is lost; delays <= timeout/10 after GST"],
        "quick": [J("cluster", "s2", 48, per_process=3, **C06_PARAMS), J("cluster", "s3", 48, per_process=3, **C06_PARAMS), J("cluster", "s2", 32, per_process=2, equal_stakes=1, **C06_PARAMS), J("cluster", "s2b", 64, per_process=4, n=4, equal_stakes=1, timeout_ms=1000, hi_ms=30, sync_retry_ms=1000, duration_ms=120000), J("cluster", "s3c", 160, per_process=5, equal_stakes=1, **C06_PARAMS)],
        "thorough": [J("cluster", "s2", 2000, **C06_PARAMS), J("cluster", "s3", 2000, **C06_PARAMS), J("cluster", "s2b", 3000, per_process=10, n=4, equal_stakes=1, timeout_ms=1000, hi_ms=30, sync_retry_ms=1000, duration_ms=120000), J("cluster", "s3c", 6000, per_process=10, equal_stakes=1, **C06_PARAMS)],
    },
    "C07": {
        "level": "fault_enumeration",
        "rule": "cluster runs of class s4 (single-node isolation / minority split for 1..20 timeouts, then heal and a quiet settling period) and puppet catch-up scripts d07 (a proposal whose 2..11 ancestors were withheld; the first sync target answers or stays silent, in which case only requests re-sent after sync_retry_delay + the 5 s timer are answered; sync_retry_delay 1 s / 5 s / 10 s); always-on in every run: each helper reply is byte-identical to the block first seen under the requested digest and was asked for, blocks are stored parent-first; non-trivial = the others committed >= 2 rounds while the victim was cut off, a retried request was observed, or the first sync target was silent; distinct = distinct Core-event fingerprints",
        "assumptions": ["links are loss-free after the heal"],
        "quick": [J("cluster", "s4", 128, per_process=4, duration_ms=90000)] + [J("puppet", "d07", 48, per_process=6, sync_retry_ms=r) for r in (1000, 5000, 10000)] + [J("puppet", "rand", 160, per_process=10)],
        "thorough": [J("cluster", "s4", 3000, duration_ms=90000)] + [J("puppet", "d07", 2000, per_process=20, sync_retry_ms=r) for r in (1000, 5000, 10000)] + [J("puppet", "rand", 10000, per_process=20)],
    },
}

def c17_sweep(lo, hi, shards):
    step = (hi - lo + shards - 1) // shards
    return [dict(J("c17", "sweep", 1, per_process=1, lo=a, hi=min(hi, a + step)), fixed_seed=1) for a in range(lo, hi, step)]


PLANS.update({
    "C17": {
        "level": "exploration",
        "rule": "quorum_threshold()/stake() of both committee types evaluated against the arithmetic oracle (3q > 2N, q <= N - f, 2q - N > f with f = floor((N-1)/3)): an exhaustive sweep of a range of total stakes with a single authority whose stake is mutated in place, plus sampled totals (all N within +-4 of 2^k and 3*2^k, and just below 2^31) distributed over 1..50 authorities in five shapes; a case class is (shape, N mod 3, size bucket)",
        "assumptions": ["overflow-checks are on in the harness build, so a wrap-around would panic instead of passing"],
        "exhaustive_key": "C17.swept_exhaustively",
        "quick": c17_sweep(1, 1 << 24, 16) + [J("c17", "dist", 16, per_process=1, samples=20000)],
        "thorough": c17_sweep(1, 1 << 31, 64) + [J("c17", "dist", 64, per_process=1, samples=200000)],
    },
    "C18": {
        "level": "exploration",
        "rule": "honestly generated key pairs: sign/verify, other digest / other key / every single-bit flip of the signature must fail, verify_batch (sizes 0..40, corrupted member at every position, three corruption kinds) must agree with individual verification; keys through base64, bincode, JSON and the node's key and committee files (node/src/config.rs Export); a case class is (clause, batch size, position / byte)",
        "assumptions": ["keys are honestly generated (no small-order points)"],
        "quick": [J("c18", "sig", 16, per_process=1, keys=24), J("c18", "enc", 16, per_process=1)],
        "thorough": [J("c18", "sig", 256, per_process=2, keys=60), J("c18", "enc", 64, per_process=2, keys=400, committees=60), J("miri", "sign", 3, per_process=1)],
    },
    "C20": {
        "level": "exploration",
        "rule": "pairs of messages differing in exactly one bound field (block: author, round +-1 / byte-swapped / rotated, each payload element, payload order, payload length, payload-parent boundary, parent; vote/QC: block, round; timeout: round, high-QC round, swapped rounds), small-alphabet cross-kind collision search (4 digests x 7 rounds, all kinds), signature transplant across kinds, bincode round trips incl. blocks with QC+TC and 0..100 payload digests; a case class is (kind, field)",
        "assumptions": ["a Timeout's digest binds its round and its high-QC's round, not the high-QC's hash (DESIGN.md C20 interpretation note)"],
        "quick": [J("c20", "x", 32, per_process=2, pairs=300)],
        "thorough": [J("c20", "x", 512, per_process=8, pairs=1000, full=200)],
    },
    "C09": {
        "level": "exploration",
        "rule": "(1) leader function of committees of 1..20 authorities built in permuted / duplicated insertion orders vs. the sorted-key round robin for rounds 0..3n, random u64 and the top of the u64 range, and once-per-window rotation; (2) always-on at every real node in puppet and cluster runs: each vote is for a block authored and validly signed by the round's leader, and no honest authority signs two proposals for one round (wire + signature-service tap), including directed races of QC/TC/timeouts at a collecting leader (d15); component case class = committee size, scenario runs are distinct by Core-event fingerprint",
        "assumptions": ["usize is 64 bits (round as usize does not truncate)"],
        "quick": [J("c09", "x", 16, per_process=1)] + [J("puppet", "d15", 192, per_process=8), J("puppet", "rand", 320, per_process=10), J("puppet", "d09", 48, per_process=8), J("puppet", "d13", 48, per_process=8)] + cluster_mix(24) + byz_mix(12),
        "thorough": [J("c09", "x", 128, per_process=2, committees=300)] + [J("puppet", "d15", 8000, per_process=20), J("puppet", "rand", 20000, per_process=20), J("puppet", "d09", 2000, per_process=20), J("puppet", "d13", 2000, per_process=20)] + cluster_mix(1000) + byz_mix(500),
    },
    "C19": {
        "level": "exploration",
        "rule": "(1) Aggregator vs. reference model on random streams of validly signed votes / timeouts (duplicates, several blocks per round, several rounds, cleanup interleaved, committees of 1..10 with equal / skewed / zero-stake / dominant stakes): a certificate is returned exactly at the first crossing of the quorum, with exactly the distinct authors so far, and verifies with the repository's verify and an independent ed25519 checker; (2) always-on at every real node: each assembled QC/TC is justified by valid votes/timeouts delivered to that node, crossed the quorum with its last contributor, is assembled once, and every certificate a node sends is valid and of known origin and accepted by the other real nodes",
        "assumptions": ["votes reaching the aggregator were verified by Core (stake > 0, signature)"],
        "quick": [J("c19", "x", 32, per_process=2)] + [J("puppet", "d15", 160, per_process=8), J("puppet", "rand", 320, per_process=10)] + cluster_mix(24) + byz_mix(12),
        "thorough": [J("c19", "x", 1024, per_process=8, streams=100)] + [J("puppet", "d15", 8000, per_process=20), J("puppet", "rand", 20000, per_process=20)] + cluster_mix(1000),
    },
    "C01": {
        "level": "exploration",
        "rule": "cluster runs with up to f stake Byzantine (classes s5 equivocator / s6 withholding leader / s7 stale-QC proposer / s8 replay storm): one omniscient adversary holding the Byzantine keys votes for every block it sees (double votes), broadcasts timeouts with the genesis QC for every round any node timed out in, assembles QCs/TCs from the honest votes/timeouts it can see, proposes two different blocks per led round to disjoint groups with late cross delivery, withholds proposals, proposes on the stalest QC its hand-picked TC allows (or an older one), makes 'wild' proposals for the round most honest nodes are in (an old QC justified by a replayed old TC or by nothing), replays tapped frames, while honest nodes are periodically split into two groups with slow cross traffic; plus honest-only crash / asynchrony / partition runs; oracle: all blocks committed by all honest nodes lie on one chain; non-trivial = a run with Byzantine actions other than plain proposals, at least one view change and >= 2 commits; distinct = distinct Core-event fingerprints",
        "assumptions": ["Byzantine stake <= f", "the local monitors (C03 C05 C09 C10 C19) run on every honest node of every run and are the early warning for breaks that only long, precisely timed attacks turn into forks (DESIGN.md Appendix D)"],
        "quick": [J("byz", c, 40, per_process=3) for c in ("s5", "s6", "s7", "s8")] + cluster_mix(24),
        "thorough": [J("byz", c, 800, per_process=10) for c in ("s5", "s6", "s7", "s8")] + cluster_mix(1000),
    },
    "C13": {
        "level": "exploration",
        "rule": "4..7 real full nodes (Node::new from JSON key / committee / parameter files, mempool and consensus on one store) with clients writing unique transactions (single node, all nodes, bursts, trickles, empty and duplicated transactions) to the transaction ports; class s1: no fault and no view change (otherwise inconclusive): every transaction is in a batch referenced by a block every node commits and every committed batch is readable, byte-exact, from every node's re-opened store; class s10 / s10b (s10b: consensus sync retry 1 s, mempool sync retry 6 s, so that consensus re-issues its synchronize command faster than the mempool's fallback delay): the mempool link from a batch creator to a victim node is blocked for the whole run: the victim must fetch the batches on demand (BatchRequest to the proposer, retry to other peers when the proposer is the blocked creator) and keep up with the others; non-trivial = a run with >= 1 on-demand batch fetch by the victim, or a fault-free run that traced every transaction end to end; component part (c13s): the mempool of one authority is driven directly through the channel consensus uses (Synchronize / Cleanup sequences, rounds below and beyond gc_depth, batches supplied or never supplied) while harness peers record every BatchRequest: a missing batch is requested from the designated peer at once and from other peers after sync_retry_delay (+ the 1 s timer), unless the request became older than gc_depth rounds",
        "assumptions": ["delays <= 40 ms (timeout 2 s)", "settling time 20 s / 40 s of virtual time"],
        "quick": [J("e2e", "s1", 40, per_process=3), J("e2e", "s10", 32, per_process=3), J("e2e", "s10b", 32, per_process=3), J("c13s", "x", 16, per_process=2, scenarios=12)],
        "thorough": [J("e2e", "s1", 1500, per_process=8), J("e2e", "s10", 1000, per_process=8), J("e2e", "s10b", 1000, per_process=8), J("c13s", "x", 256, per_process=4, scenarios=20)],
    },
    "C15": {
        "level": "exploration",
        "rule": "a real full node with puppet peers receives bursts of hostile frames on its consensus, mempool and transaction ports (random bytes; bit-flipped / truncated / extended / spliced valid frames of every message kind; every enum tag; length fields set to 0, 1, 2^32-1, 2^64-1; key strings of every length 0..100; well-formed absurd content: rounds 0 and u64::MAX, empty and 50 000-entry certificates, 100 000-digest payloads and batch requests, sync requests for unknown / batch digests and from strangers, batch requests for block digests, each message kind on each other port; unframed headers announcing up to 4 GiB; transactions of 0 B .. 1 MB), in both feature builds; after every burst four functional probes (valid proposal voted, sync request answered, batch request answered, client transactions batched and broadcast) and a process-wide panic hook decide; class bigtx: one transaction just below the 8 MiB frame limit, then the probes; thorough adds the Miri interpreter on the crypto crate's decoders; a case class is (port, hostile class, message kind)",
        "assumptions": ["hostile content is never validly certified (it cannot legitimately move the node's round)"],
        "quick": [J("hostile", "mixed", 64, per_process=2, bursts=6), J("hostile", "mixed", 32, per_process=2, bench=True, bursts=6), J("hostile", "bigtx", 2, per_process=1, bursts=1)],
        "thorough": [J("hostile", "mixed", 2000, per_process=6, bursts=10), J("hostile", "mixed", 1000, per_process=6, bench=True, bursts=10), J("hostile", "bigtx", 4, per_process=1, bursts=1), J("miri", "decode", 4, per_process=1)],
    },
    "C11": {
        "level": "exploration",
        "rule": "a real Mempool::spawn with harness peers and a client writing framed transactions (sizes 0, 1, 8, 9, batch_size-1, batch_size, batch_size+1, multiples, random; first byte 0 = benchmark sample marker; bursts and trickles straddling the seal timer; batch_size in {1,10,200,15000}, max_batch_delay in {1,10,100} ms), in BOTH builds (default and --features benchmark); oracle: concatenation of sealed batches in seal order == accepted transactions byte for byte, size/timer seal rule in virtual time, digest == SHA-512/256 of the exact bytes stored and sent, also for received batches with trailing bytes, no panic in the batching path; case class = (build, batch_size, delay, transaction size class)",
        "assumptions": ["one client connection per scenario", "no connection faults in this workload"],
        "quick": [J("c11", "x", 32, per_process=2, scenarios=25), J("c11", "x", 32, per_process=2, bench=True, scenarios=25)],
        "thorough": [J("c11", "x", 1024, per_process=8, scenarios=50), J("c11", "x", 1024, per_process=8, bench=True, scenarios=50)],
    },
    "C12": {
        "level": "exploration",
        "rule": "a real Mempool::spawn for one authority of a committee of 2..10 (stakes equal / skewed / dominant peer / dominant self / zero-stake members); harness peers acknowledge after random delays, never, or only after their first acknowledgements were cut with the connection; oracle: at the moment an own batch's digest is read from the channel to consensus (and at its store write) the stake of self plus the peers that had WRITTEN the positional acknowledgement of that batch's frame is >= quorum; case class = (n, acknowledgement policies present, self stake)",
        "assumptions": ["an acknowledgement read by the node implies one written earlier (counting written acks is permissive)"],
        "quick": [J("c12", "x", 48, per_process=3, scenarios=20), J("c11", "x", 8, per_process=2, scenarios=20)],
        "thorough": [J("c12", "x", 1024, per_process=16, scenarios=40)],
    },
    "C14": {
        "level": "fault_enumeration",
        "rule": "a real ReliableSender and a harness peer on the simulated network; 10 base scenarios (1..8 messages, burst or spaced) x every single fault point (first 1..5 connects refused; connection cut before / inside / after every frame in either direction; peer restart at 5 instants; handle dropped while disconnected; peer that stops acknowledging) enumerated completely, then random multi-fault scenarios (up to 12 messages, refused connects, cuts, restarts, per-frame chaos, drops, delayed or missing acknowledgements); a case class is one enumerated fault point, or the fault-kind combination of a random scenario",
        "assumptions": ["acknowledgements are paired with frames by position on a connection (the protocol has no message ids)", "300 virtual seconds of fault-free network at the end of every scenario (> maximum back-off)"],
        "exhaustive_key": "C14.fault_points_enumerated",
        "quick": [dict(J("c14", "enum", 1, per_process=1, shards=16, shard=k), fixed_seed=7) for k in range(16)] + [J("c14", "rand", 256, per_process=8, scenarios=60)],
        "thorough": [dict(J("c14", "enum", 1, per_process=1, shards=16, shard=k), fixed_seed=7) for k in range(16)] + [J("c14", "rand", 2048, per_process=16, scenarios=100)],
    },
    "C16": {
        "level": "exploration",
        "rule": "many short histories (2..12 tasks x 3..8 operations on 1..3 keys, unique written values, notify_reads before / after / concurrent with the first write) against a real RocksDB-backed Store under two schedulers (4-thread runtime in real time; single thread with random yields); call and return of every operation stamped from one atomic counter at the handle boundary; per-key Wing-Gong-Lowe linearizability search against a register-with-waiters model, necessary-condition checks, lost-wake-up check at quiescence, reopen read-back; non-trivial = >= 2 tasks writing one key and a waiter registered before the first write; distinct = distinct observed read/wake value sequences",
        "assumptions": ["a write linearizes at its enqueue (inside call..return)", "search budget 400k steps per key history, exhaustion is inconclusive"],
        "quick": [J("c16", "mt", 16, per_process=1, histories=16), J("c16", "st", 16, per_process=1, histories=16)],
        "thorough": [J("c16", "mt", 256, per_process=2, histories=60), J("c16", "st", 256, per_process=2, histories=60)],
    },
    "C04": {
        "level": "exploration",
        "rule": "(1) verdict table: Block/Vote/QC/Timeout/TC::verify on by-construction valid messages and on ~55 mutation classes (every signature bit for one vote and one block per run, each signed field altered, signatures transplanted between rounds / kinds, repeated / non-member / zero-stake signers, below quorum, re-weighted committee, invalid embedded certificates) over committees of 1..10 with unequal stakes; (2) always-on at the real node in puppet runs that inject invalid variants of earlier valid messages: between the Begin and End of handling an input that is invalid by the independent checker, no state field changes and no vote / timeout / round / certificate / commit / proposal event occurs, and no valid input is rejected as invalid",
        "assumptions": ["a QC equal to genesis in (hash, round) is accepted unverified by design"],
        "quick": [J("c04", "x", 32, per_process=2)] + [J("puppet", "rand", 480, per_process=10)],
        "thorough": [J("c04", "x", 512, per_process=8, committees=40)] + [J("puppet", "rand", 30000, per_process=20)],
    },
})


# Size of the thorough tier. The scenario engines (puppet, cluster, byz, e2e, hostile) take 0.1-1 s per run;
# the counts written above are the "deep" size (1-4 h per property on 16 cores). By default a quarter of
# that is run (15-45 min per property); VERIF_SCALE=4 runs the deep size, VERIF_SCALE=0.1 a smoke test.
import os as _os

THOROUGH_BASE = 0.25
try:
    SCALE = max(0.01, float(_os.environ.get("VERIF_SCALE", "1")))
except ValueError:
    SCALE = 1.0
for _p in PLANS.values():
    for _s in _p["thorough"]:
        if _s["workload"] in ("puppet", "cluster", "byz", "e2e") or (_s["workload"] == "hostile" and _s["class"] == "mixed"):
            _s["count"] = max(_s["per_process"], int(_s["count"] * THOROUGH_BASE * SCALE))


def nontrivial(pid, res, sits):
    want = NONTRIVIAL.get(pid)
    if want is None:
        c = res.get("counters", {})
        return any(k.startswith(pid + ".") and v > 0 for k, v in c.items())
    return any(s in want for s in sits)


# Coverage floors: (counter or situation, minimum) that the unchanged tree meets deterministically.
FLOORS = {
    "C01": {"quick": {"C01.distinct_committed_blocks": 10000, "C01.adv.equivocation": 500, "C01.adv.withholding_proposal": 300, "C01.adv.wild_proposal_old_qc_replayed_old_tc": 300, "C01.fork_points": 500, "sit:C01:byzantine_actions_view_change_and_commits": 50}},
    "C13": {"quick": {"C13.transactions_traced": 1500, "C13.committed_batches_read_back": 3000, "sit:C13:on_demand_batch_fetch": 20, "sit:C13:fault_free_end_to_end": 20}},
    "C15": {"quick": {"C15.hostile_frames": 3000, "C15.probe_vote": 300, "C15.probe_sync": 300, "C15.probe_batch_request": 300, "C15.probe_batching": 300}},
    "C11": {"quick": {"C11.transactions_conserved_in_order": 10000, "C11.sealed_by_size": 1000, "C11.sealed_by_timer": 500, "C11.received_batches_checked": 100}},
    "C12": {"quick": {"C12.releases_checked": 2000, "sit:C12:release_with_silent_peer": 10, "sit:C12:released_exactly_at_threshold": 10}},
    "C14": {"quick": {"C14.fault_points_enumerated": 300, "C14.retransmissions_received": 500, "C14.drops_while_disconnected_checked": 20, "C14.resolutions_checked": 5000}},
    "C16": {"quick": {"C16.histories": 400, "C16.key_histories_linearizable": 500, "C16.notify_reads_completed": 1000, "C16.waiters_registered_before_first_write": 100, "C16.reopens_checked": 400}},
    "C17": {"quick": {"C17.evaluations": 1000000, "C17.distributions_checked": 10000}},
    "C18": {"quick": {"C18.cases": 20000}},
    "C20": {"quick": {"C20.cases": 100000}},
    "C09": {"quick": {"C09.leader_evaluations": 10000, "C09.votes_checked": 5000, "C09.honest_proposals_seen": 1000}},
    "C19": {"quick": {"C19.aggregator_cases": 20000, "C19.assembled_qcs_checked": 500, "C19.assembled_tcs_checked": 100, "C19.sent_certificates_checked": 5000}},
    "C04": {"quick": {"C04.verdicts_checked": 20000, "C04.invalid_inputs_handled": 300}},
    "C02": {"quick": {"C02.links_ok": 1000, "sit:C02:multi_block_commit": 5, "sit:C02:commit_with_2plus_ancestors": 3, "sit:C02:first_block_round_gt_1": 3}},
    "C03": {"quick": {"C03.votes_checked": 2000, "sit:C03:second_proposal_after_vote": 5, "sit:C03:proposal_after_own_timeout": 5, "sit:C03:unsafe_extension_offered": 5, "sit:C03:vote_via_tc": 5}},
    "C05": {"quick": {"C05.commits_checked": 1000, "sit:C05:certified_2chain_with_gap_shown": 5}},
    "C08": {"quick": {"C08.votes_with_payload_checked": 100, "C08.commits_with_payload_checked": 100}},
    "C10": {"quick": {"C10.round_advances_checked": 2000, "C10.timeouts_checked": 50, "sit:C10:jump_gt_1": 5, "sit:C10:advance_by_tc": 5}},
    "C06": {"quick": {"C06.windows_checked": 400, "C06.crashes_while_broadcasting_tc": 50}},
    "C07": {"quick": {"C07.recoveries_checked": 20, "C07.puppet_catch_ups_checked": 100, "C07.sync_replies_checked": 1000, "C07.store_order_checked": 10000, "sit:C07:retry_observed": 20}},
}


def floors(pid, tier, counters, situations, runs):
    problems = []
    if runs == 0:
        problems.append("no run completed")
    fl = FLOORS.get(pid, {}).get("quick", {})
    for k, minimum in fl.items():
        if k.startswith("sit:"):
            got = situations.get(k[4:], 0)
        else:
            got = counters.get(k, 0)
        if got < minimum:
            problems.append("%s = %s < %s" % (k, got, minimum))
    return problems


# ---------------------------------------------------------------------------------------------
# Manifest metadata per claimed property.
def M(engine, technique, level_text, level_note):
    return {"engine": engine, "technique": technique, "level_text": level_text, "level_note": level_note}


META = {
    "C02": M(
        "cluster",
        "offline trace monitor over the commit-channel sequence of every real node",
        "Held on the executions produced: the exact sequence each real node wrote to its commit channel is checked link by link (parent = previous, no repeat, no genesis, rounds increase) in hundreds of crash / asynchrony / partition runs whose chains contain view-change gaps and multi-ancestor commits. Sampling of schedules, not coverage.",
        "Trusted: the simulated transport (FIFO byte streams, resets), the harness task reading the commit channel, the repository's digest(). Runs are sampled; n <= 7.",
    ),
    "C06": M(
        "cluster",
        "bounded-progress window monitor in virtual time over commit events; local obligation monitor (a leader entering its round through a TC proposes)",
        "Bounded restatement of liveness: with <= f crashed (and three consecutive live leaders in the rotation) and delays <= timeout/10 after GST, every live node's committed round grows in every window W = 6(f+1) timeouts + sync_retry + 10 s. Runs include crashes at random times and from the start, heavy pre-GST delays, nodes that boot late (round timers out of phase), proposals that are slower than all other messages, and a node that crashes in the middle of broadcasting a timeout certificate. Held within the bound on the runs made; not a proof of liveness.",
        "Premises are enforced by the scenario generator (no loss between live nodes, delay bound after GST); runs whose plan misses the premise are inconclusive. Slowdowns below the window are invisible.",
    ),
    "C07": M(
        "cluster",
        "fault-injection scenarios (isolate / split, heal) with offline convergence, sync-reply and store-order monitors",
        "Isolation intervals (node, start, length) are sampled in cluster runs; in puppet catch-up scripts the ancestor depth (2..11), the behaviour of the first sync target (answers / silent) and sync_retry_delay (1 / 5 / 10 s) are enumerated across runs. After the heal (or the retry) the node must have committed what it must reach and agree with the others round by round; always-on in every run: every helper reply equals a block proposed under the requested digest and was asked for by the origin it is sent to, blocks are stored parent-first, and a sync request for a stored block is answered.",
        "Links are loss-free after the heal; the fault space is sampled per run (enumeration over node x start x length x depth x retry delay happens across seeds).",
    ),
}

META.update({
    "C03": M("puppet", "online hook events checked offline against an independent voting-rule predicate; wire and signing-service taps as cross-checks",
             "Held on the executions produced: every vote event of every real node is checked (one per round, strictly increasing, none after own timeout of that round, safe extension per an independent predicate on the exact proposal voted) in puppet runs that deliberately offer the rejecting branches (second proposal after a vote, proposal after own timeout on the direct / sync-resumed / payload-resumed paths, gap without TC, TC of the wrong round, TC reporting a higher QC, qc.round >= round, stale and far-future rounds) and in cluster runs. Cross-checked against validly signed votes seen on the wire and every signature made by the signing service.",
             "Puppet inputs are any validly signed history (more than f 'faulty' keys), which is what a single node's local rule must withstand. Sampling of scripts and interleavings, not coverage."),
    "C04": M("component + puppet", "by-construction verdict table for the five verify functions; begin/end state-snapshot non-interference monitor at the real node; independent re-check of every block the node votes for",
             "Verify functions are driven with messages whose validity is known from how they were built; at the real node every handled input that the independent checker classifies invalid must leave the state snapshot unchanged and cause no action event. Held on the cases generated.",
             "Expected verdicts come from construction plus an independent ed25519/stake checker; the twin-run comparison of DESIGN.md C04-2 is replaced by the begin/end snapshot form (Appendix F fallback)."),
    "C05": M("puppet", "offline justification monitor: commit events vs. blocks and certificates delivered to the node before them",
             "Every commit of every real node must be justified by a consecutive-round pair among blocks it had been shown and a valid QC for the second block among certificates it had been shown or assembled; runs include certified 2-chains with gaps at either position, certified-never-extended blocks and QCs carried only by timeouts.",
             "Permissive in the safe direction (any delivered QC counts). Puppet histories keep all certified consecutive pairs on one chain."),
    "C08": M("puppet", "offline order monitor over store-write, vote and commit events with one global sequence counter",
             "At every vote for a foreign block and every commit, each payload digest must have an earlier store-write on that node's own store; payloads are present, partially missing, arriving one by one in any order, arriving after the node's timeout, or never arriving.",
             "Consensus-only nodes (the harness plays the mempool by writing batches into the node's store); full-node batch fetching is C13's part."),
    "C09": M("component + puppet + cluster", "reference-model comparison of the leader function; offline trace monitors for votes-for-leader-only and honest non-equivocation",
             "Leader function compared with an independent model over committees, insertion orders and extreme rounds; at every real node each vote must be for a validly signed block of the round's leader and no honest signer may produce two proposals for a round (wire tap and signing-service tap), including races of QC, TC and timeouts at a collecting leader.",
             "Sampling; n <= 20 (component), n <= 7 (runs)."),
    "C10": M("puppet + cluster", "offline pacemaker monitor over round-advance and timeout events vs. certificates held",
             "Rounds strictly increase and chain; each entry into round r+1 is preceded by a valid QC or TC of round r delivered to or assembled by the node; each timeout's high-QC is at least the QC of any block voted and any QC sent before. Runs include jumps over many rounds, TC-only advances, certificates that arrive only inside timeouts or blocks.",
             "A certificate counts as held from the moment its frame became readable by the node (permissive)."),
    "C01": M("cluster", "global ancestor-chain monitor over the commit logs of all honest nodes under a Byzantine + scheduler adversary",
             "Held on the executions produced: thousands of commits per check across honest nodes, in runs with equivocating, withholding, stale-QC and replaying Byzantine leaders holding up to f stake, double votes, adversarial timeouts and honest-group splits, all lying on one chain. Random play reaches forks when certificate validation, quorum arithmetic, the commit rule or leader / signature checks are broken; breaks of the voting and pacemaker rules are caught by the local monitors that run in the same executions (see DESIGN.md 7.3 for which seeded change is caught by which check).",
             "Sampling of schedules and Byzantine strategies; n <= 7; the scripted playbooks of Appendix D are not implemented (DESIGN.md 9)."),
    "C13": M("cluster", "end-to-end trace monitor (client transaction -> batch -> committed block -> re-opened store) on real full nodes; on-demand fetch scenario with stall / bounded-lag checks; request/retry monitor over the mempool synchronizer driven directly",
             "Held on the runs produced, with the premises checked per run (a view change in a fault-free run makes it inconclusive).",
             "Virtual time, delays <= 40 ms; one blocked mempool link per faulty run."),
    "C15": M("puppet", "process-wide panic hook plus functional probes after hostile bursts on all three ports, both builds; Miri on the decoders (thorough)",
             "No panic anywhere in the process and all four services still functional after every burst, on the inputs generated. One known finding (a transaction just below the frame limit wedges batch dissemination) is reported as KNOWN-FINDING.",
             "Sampled inputs; frames up to ~6 MB (the 8 MiB codec limit closes the connection for larger ones)."),
    "C11": M("component", "conservation / order / timing / content-addressing oracle over client-side, wire-side and store-side observations of a real mempool, in both feature builds",
             "Held on the generated loads in both builds: what the client's connection delivered equals the concatenation of the sealed batches, each batch is sealed on crossing the size threshold or within max_batch_delay of its first transaction, and every digest handed to consensus is the hash of the exact bytes in the store.",
             "Virtual time; one client connection; sizes up to a few batch sizes (40 kB)."),
    "C12": M("component", "stake-sum oracle over positional acknowledgement frames written by harness peers vs. the release and store-write events",
             "Held on the generated acknowledgement schedules: no own digest is released or stored before self + acknowledging peers reach the quorum; runs where the release happens exactly at the threshold and with permanently silent peers are counted.",
             "Peers are harness tasks; real peers' receivers acknowledge every frame, which is the behaviour modelled."),
    "C14": M("component", "fault enumeration on a simulated transport with an offline oracle over hand-over / drop / resolve events and the peer-side frame log",
             "Every single fault point of the base scenarios is enumerated (exhaustive for that finite set), then multi-fault sequences are sampled. Checked: kept messages are received at least once, first receipts in hand-over order, a handle resolves only with the reply to its own message and after that reply was written, messages dropped while disconnected never go out on a later connection, nothing but handed-over messages is ever received as a complete frame.",
             "The simulated transport models resets, refused connects and cuts at frame granularity (before / inside / after a frame); real TCP segmenting and OS errors are not exercised."),
    "C16": M("component", "linearizability checking (per-key WGL search) of histories recorded at the Store handle boundary, lost-wake-up and reopen checks",
             "Held on the recorded histories: each per-key sub-history has a linearization against the register-with-waiters model, no notify_read is left pending after a write, and reopened stores return the last value.",
             "Histories are short and sampled; true parallelism only in the 4-thread variant; cannot run under Miri (RocksDB FFI)."),
    "C17": M("component", "arithmetic oracle over an exhaustive sub-range and sampled stake distributions",
             "Exhaustive for total stake 1..2^24 (quick) / the whole range 1..2^31-1 (thorough) with one authority, sampled for distributions over up to 50 authorities; consensus and mempool committees compared.",
             "Build has overflow checks on. The distribution space is sampled."),
    "C18": M("component", "round-trip and negative oracles on honestly generated keys, incl. the node's JSON key / committee files",
             "Held on the generated cases: every single-bit flip of sampled signatures, all batch positions for sizes 0..40, encodings through base64 / bincode / JSON / files.",
             "Honest keys only (verify_strict vs. batch verification differ on adversarial keys, outside the property)."),
    "C19": M("component + puppet + cluster", "reference aggregation model; offline justification monitor for assembled and sent certificates",
             "Aggregator output compared step by step with a model; at real nodes every assembled certificate must be justified by what was delivered to that node and every sent certificate must be valid, of known origin, and accepted by the other real nodes.",
             "Sampling of arrival orders and stake distributions."),
    "C20": M("component", "single-field-difference digest pairs, small-alphabet cross-kind collision search, serialisation round trips",
             "Held on the generated pairs and the enumerated alphabet; the store/wire sync path is additionally checked byte-for-byte by the C07 monitor.",
             "Random digests; collision resistance of SHA-512 is assumed."),
})

NOT_CLAIMED = {}
