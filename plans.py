"""Workload plans per property and tier; non-triviality rules and coverage floors.

A plan entry is {workload, class, count, per_process, params, bench}; `count` scenarios are run
with consecutive seeds derived from VERIF_SEED, `per_process` of them per worker process.
"""


def J(workload, cls, count, per_process=8, bench=False, **params):
    return {"workload": workload, "class": cls, "count": count, "per_process": per_process, "params": params, "bench": bench}


# Situations that make a run non-trivial for a property (any one of them suffices); a property
# with an empty list counts every run that evaluated its oracle at least once.
NONTRIVIAL = {
    "C02": ["C02:multi_block_commit", "C02:round_gap_in_sequence", "C02:first_block_round_gt_1"],
    "C06": ["C06:with_crash", "C06:async_then_stable"],
    "C07": ["C07:gap_of_2plus_blocks"],
}

C06_PARAMS = dict(timeout_ms=1000, hi_ms=50, sync_retry_ms=1000, duration_ms=250000)

PLANS = {
    "C02": {
        "level": "exploration",
        "rule": "cluster runs (real nodes on the simulated network, virtual time) of classes s2 crash / s3 async-then-stable / s4 partition-heal; a run is non-trivial if some commit delivered >= 2 blocks, the delivered sequence has a round gap, or the first delivered block has round > 1; distinct = distinct fingerprints of the per-node Core event sequences",
        "assumptions": ["simulated transport preserves per-connection FIFO byte streams", "commit channel read by the harness task is the application boundary"],
        "quick": [J("cluster", "s2", 96), J("cluster", "s3", 96), J("cluster", "s4", 96)],
        "thorough": [J("cluster", "s2", 1500), J("cluster", "s3", 1500), J("cluster", "s4", 1500)],
    },
    "C06": {
        "level": "exploration",
        "rule": "cluster runs with <= f crashed nodes (s2) or heavy pre-GST delays (s3); oracle: every live node's highest committed round grows in every window W = 6(f+1)*timeout + sync_retry + 2*5s after stabilisation; non-trivial = run with a crash or with an asynchronous prefix; distinct = distinct Core-event fingerprints",
        "assumptions": ["bounded restatement of liveness (DESIGN.md C06)", "no frame between live nodes is lost; delays <= timeout/10 after GST"],
        "quick": [J("cluster", "s2", 64, per_process=4, **C06_PARAMS), J("cluster", "s3", 64, per_process=4, **C06_PARAMS), J("cluster", "s2", 32, per_process=4, equal_stakes=1, **C06_PARAMS)],
        "thorough": [J("cluster", "s2", 2000, **C06_PARAMS), J("cluster", "s3", 2000, **C06_PARAMS)],
    },
    "C07": {
        "level": "fault_enumeration",
        "rule": "cluster runs of class s4 (single-node isolation / minority split for 1..20 timeouts, then heal and a quiet settling period); non-trivial = the others committed >= 2 rounds while the victim was cut off; distinct = distinct Core-event fingerprints",
        "assumptions": ["links are loss-free after the heal"],
        "quick": [J("cluster", "s4", 192, duration_ms=90000)],
        "thorough": [J("cluster", "s4", 3000, duration_ms=90000)],
    },
}


def nontrivial(pid, res, sits):
    want = NONTRIVIAL.get(pid)
    if want is None:
        c = res.get("counters", {})
        return any(k.startswith(pid + ".") and v > 0 for k, v in c.items())
    return any(s in want for s in sits)


# Coverage floors: (counter or situation, minimum) that the unchanged tree meets deterministically.
FLOORS = {
    "C02": {"quick": {"C02.links_ok": 1000, "sit:C02:multi_block_commit": 5}},
    "C06": {"quick": {"C06.windows_checked": 500}},
    "C07": {"quick": {"C07.recoveries_checked": 20}},
}


def floors(pid, tier, counters, situations, runs):
    problems = []
    if runs == 0:
        problems.append("no run completed")
    fl = FLOORS.get(pid, {}).get("quick", {})
    for k, minimum in fl.items():
        if k.startswith("sit:"):
            got = situations.get(k[4:], 0)
        else:
            got = counters.get(k, 0)
        if got < minimum:
            problems.append("%s = %s < %s" % (k, got, minimum))
    return problems


# ---------------------------------------------------------------------------------------------
# Manifest metadata per claimed property.
def M(engine, technique, level_text, level_note):
    return {"engine": engine, "technique": technique, "level_text": level_text, "level_note": level_note}


META = {
    "C02": M(
        "cluster",
        "offline trace monitor over the commit-channel sequence of every real node",
        "Held on the executions produced: the exact sequence each real node wrote to its commit channel is checked link by link (parent = previous, no repeat, no genesis, rounds increase) in hundreds of crash / asynchrony / partition runs whose chains contain view-change gaps and multi-ancestor commits. Sampling of schedules, not coverage.",
        "Trusted: the simulated transport (FIFO byte streams, resets), the harness task reading the commit channel, the repository's digest(). Runs are sampled; n <= 7.",
    ),
    "C06": M(
        "cluster",
        "bounded-progress window monitor in virtual time over commit events",
        "Bounded restatement of liveness: with <= f crashed (and three consecutive live leaders in the rotation) and delays <= timeout/10 after GST, every live node's committed round grows in every window W = 6(f+1) timeouts + sync_retry + 10 s. Held within the bound on the runs made; not a proof of liveness.",
        "Premises are enforced by the scenario generator (no loss between live nodes, delay bound after GST); runs whose plan misses the premise are inconclusive. Slowdowns below the window are invisible.",
    ),
    "C07": M(
        "cluster",
        "fault-injection scenarios (isolate / split, heal) with offline convergence, sync-reply and store-order monitors",
        "Isolation intervals (node, start, length) are sampled; after the heal and a settling period the victim must have reached what the others had committed at reconnection, agree with them round by round, every helper reply must be byte-identical to the original proposal and have been requested, and blocks are stored parent-first.",
        "Links are loss-free after the heal; the fault space is sampled per run (enumeration over node x start x length happens across seeds).",
    ),
}

NOT_CLAIMED = {}
