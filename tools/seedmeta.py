#!/usr/bin/env python3
"""Write seeded/<id>/meta.json and seeded/README.md from the confirmation logs and the check logs.
Usage: seedmeta.py <log files with '=== <P> with <ID>' / 'exit=' / VIOLATION lines> ..."""
import glob, json, os, re, sys

SUMMARY = {
 "C01-a": ("C01", "core.rs process_qc: early return for qc.round < self.round also skips update_high_qc", "Byzantine leader + two view changes with a delayed QC (fork below a committed block)"),
 "C01-b": ("C01", "core.rs make_vote: TC branch of safety rule 2 loses `tc.round + 1 == block.round` (any old TC justifies a stale-QC block)", "a view change at round r, >= 3 rounds of progress with a commit, then a Byzantine leader replaying TC_r on a block extending the old QC"),
 "C02-a": ("C02", "core.rs commit: ancestor walk loops on parent.qc.round and drops the stop guard (skips the ancestor at last_committed_round+1)", "a round gap between the last committed block and the block being committed"),
 "C02-b": ("C02", "core.rs commit: last_committed_round saved from the walk cursor (oldest new ancestor) instead of the head", "a view change leaving an uncommitted ancestor, then one more commit: blocks are delivered twice"),
 "C03-a": ("C03", "core.rs make_vote: safety_rule_1 `>` became `>=`", "equivocating leader, or a round-r proposal arriving after the node's own round-r timeout"),
 "C03-b": ("C03", "core.rs make_vote: TC branch no longer requires tc.round + 1 == block.round", "node reached round r by view change; leader of r proposes with an old QC and a stale TC"),
 "C04-a": ("C04", "core.rs handle_vote: vote.verify skipped when vote.author == self.name", "a vote naming the collecting leader itself with somebody else's signature"),
 "C04-b": ("C04", "messages.rs Block::verify: embedded TC verified only when qc.round + 1 != round, while handle_proposal still advances on it", "a correctly led proposal that directly extends its QC and carries a forged TC"),
 "C05-a": ("C05", "core.rs process_block: commit condition checks b1.round + 1 == block.round", "a view change leaving a gap between a block and its certified child"),
 "C05-b": ("C05", "core.rs process_block: a TC-justified b1 also counts as 'direct extension' for the commit rule", "b0(r) <- b1(r+k, TC) <- block with k >= 2"),
 "C06-a": ("C06", "core.rs handle_timeout: process_qc(high_qc) replaced by update_high_qc (no round advance from a timeout's QC)", "a leader crashing after delivering its proposal to only one live node: nodes end up in different rounds and no TC can form"),
 "C07-a": ("C07", "core.rs handle_proposal: block stored on arrival, before its ancestors were processed", "lagging node with a gap of >= 2 blocks: the stored reply wakes the child before the grand-parent is there; Core panics"),
 "C07-b": ("C07", "synchronizer.rs retry arm: request timestamp reset at every 5 s tick, so the retry broadcast never fires when sync_retry_delay >= 5 s", "first sync target silent and sync_retry_delay >= 5 s (the default)"),
 "C08-a": ("C08", "core.rs handle_proposal: payload availability check skipped for blocks of past rounds", "a missed proposal arriving late (or as sync reply) with a batch the node lacks, later committed"),
 "C08-b": ("C08", "consensus/src/mempool.rs: already-requested digests filtered out of the wait list; a second block sharing a missing batch resumes at once", "two distinct blocks sharing a missing batch digest, no commit in between"),
 "C09-a": ("C09", "core.rs handle_tc: stale filter `tc.round + 1 < self.round`: a TC for the previous round makes the leader propose again", "leader already in r+1 receives a peer's copy of TC(r) while payloads keep arriving"),
 "C09-b": ("C09", "core.rs handle_vote: stale filter tied to high_qc.round instead of self.round", "leader entered r by TC; the delayed votes for r-1 then form a QC and trigger a second proposal for r"),
 "C10-a": ("C10", "core.rs process_qc: early return skipping update_high_qc (same edit as C01-a, found independently)", "vote for a TC-justified block whose QC was learned late, then time out"),
 "C10-b": ("C10", "core.rs handle_proposal: payload check moved before process_qc; a payload-resumed block never updates high_qc", "round entered by TC, proposal parked for a missing batch, resumed, voted, then the node times out"),
 "C11-a": ("C11", "batch_maker.rs timer branch: `!current_batch.is_empty()` became `current_batch_size > 0`", "an open batch holding only empty transactions when the seal timer fires"),
 "C12-a": ("C12", "quorum_waiter.rs: total_stake hoisted out of the per-batch loop (never reset)", "a second batch acknowledged by fewer than a quorum"),
 "C13-a": ("C13", "mempool/src/synchronizer.rs: a repeated Synchronize re-sends to the designated target and resets the retry clock", "proposer never answers and consensus keeps re-issuing Synchronize at least every sync_retry_delay"),
 "C14-a": ("C14", "reliable_sender.rs keep_alive: pending replies re-buffered with pop_front (reversed order)", ">= 2 unacknowledged messages on the wire when the connection breaks"),
 "C14-b": ("C14", "reliable_sender.rs keep_alive: cancelled entries removed from pending_replies (positional ACK pairing shifts)", "handle of an in-flight message dropped before its ACK, then another message sent"),
 "C16-a": ("C16", "store: notify_read does a plain read first, then registers without re-check in the store task", "a write enqueued between the waiter's Read and its NotifyRead"),
 "C16-b": ("C16", "store Write arm: waking waiters stops at the first failed send", ">= 2 waiters on a key, an earlier one cancelled before the write"),
 "C17-a": ("C17", "both config.rs: quorum_threshold = total/3*2+1 (divide first)", "total stake = 2 mod 3"),
 "C18-a": ("C18", "crypto verify_batch: members with malformed signature/key bytes are skipped instead of failing the batch", "a signature with one of bits 509-511 flipped, or key bytes that do not decompress"),
 "C19-a": ("C19", "aggregator.rs TCMaker: stake of duplicate timeouts counted again", "same authority's timeout processed twice before the TC exists"),
 "C19-b": ("C19", "aggregator.rs: votes keyed by round only (different blocks mixed into one QC)", "votes for several blocks of one round reach the collector before a quorum completes"),
 "C20-a": ("C20", "messages.rs Block digest hashes qc.round instead of the block's round", "same author proposing twice on the same QC at different rounds"),
 "C15-a": ("C15", "", ""),
}

SUMMARY.update({
 "C02-c": ("C02", "core.rs commit: queue changed from VecDeque to Vec with push only (ancestors delivered newest-first)", "one commit whose walk collects >= 2 uncommitted ancestors"),
 "C05-c": ("C05", "core.rs process_block: 'late block fast path' commits b1 when block.round <= high_qc.round and b1.round + 1 == block.round (no certificate for block)", "a view change orphaning a branch, then a late / replayed uncertified proposal on the orphaned branch"),
 "C06-b": ("C06", "proposer.rs make_block: ack-wait loop breaks on `>` instead of `>=` quorum", "exactly f authorities crashed: the proposer waits for an ack that never comes"),
 "C07-c": ("C07", "consensus synchronizer timer arm: requests.retain(d -> pending.contains(d)) mixes the two key spaces and drops the outstanding request", "first sync target unresponsive"),
 "C08-c": ("C08", "consensus/src/mempool.rs PayloadWaiter: try_join_all replaced by FuturesUnordered::try_next (resumes on the FIRST arriving batch)", "a proposal with >= 2 missing batches that do not arrive together"),
 "C09-c": ("C09", "leader.rs: zero-stake members filtered out before the round robin", "a committee with a zero-stake member"),
 "C10-c": ("C10", "core.rs: stale-round guard hoisted out of advance_round; handle_proposal's advance_round(tc.round) for an embedded old TC moves the round back", "a late / sync-fetched proposal carrying a TC older than the current round"),
 "C11-b": ("C11", "batch_maker.rs benchmark filter: tx.len() >= 8 (tx[1..9] needs 9 bytes)", "benchmark build and a transaction of exactly 8 bytes starting with 0"),
 "C12-b": ("C12", "quorum_waiter.rs: each ack handle wrapped in a 500 ms timeout whose expiry still yields the peer's stake", "more than f stake of peers silent for > 500 ms"),
 "C13-c": ("C13", "", ""),
 "C14-c": ("C14", "reliable_sender.rs run(): buffer.retain replaced by swap_remove_back in the back-off loop (reorders live messages)", "peer unreachable, a cancelled message queued before live ones, one more send during the same back-off"),
 "C15-a": ("C15", "crypto decode_base64 via decode_config_slice into a fixed array: panics on over-long keys", "a key string decoding to more than 32 / 64 bytes"),
 "C15-b": ("C15", "consensus.rs receiver handler: SyncRequest from a non-member falls through to the core, which panics on 'Unexpected protocol message'", "a SyncRequest whose origin is not in the committee"),
 "C16-c": ("C16", "store NotifyRead arm: waiters.retain(s -> s.is_closed()) (inverted) drops live waiters", ">= 2 notify-reads pending on one key"),
 "C18-b": ("C18", "node/src/config.rs Export::read strips `//` comments, but base64 contains `/`", "a key whose base64 text contains `//` (1-2 % of keys)"),
 "C19-c": ("C19", "aggregator.rs QCMaker: `weight == quorum` instead of `>=`, reset dropped", "unequal stakes where the accumulated weight jumps over the threshold"),
 "C20-b": ("C20", "messages.rs Vote and QC digests drop the round", "a vote / QC relabelled with another round"),
})

SUMMARY.update({
 "C01-c": ("C01", "core.rs process_block commit gate checks b1.round + 1 == block.round (same edit as C05-a, found independently; demo shows conflicting commits among four honest nodes)", "view changes producing b0 <- b1 (gap) <- block and a sibling of b0 certified inside the gap"),
 "C03-c": ("C03", "core.rs: last_voted_round bump moved after sending the vote; the 'I am the next leader' branch returns early and skips it", "the node is the next leader and the current leader equivocates"),
 "C04-c": ("C04", "core.rs handle_timeout verifies only the author when timeout.high_qc.round < self.round, yet still adopts that QC as high_qc", "node entered its round through a TC; a member sends a self-signed timeout with a forged QC of a round between high_qc and the current round"),
 "C06-c": ("C06", "core.rs: timer.reset moved from advance_round to process_qc (TC-driven round changes no longer re-arm the timer)", "a view change while the live nodes' timers are out of phase"),
 "C08-d": ("C08", "core.rs handle_proposal: returns early when the parent is missing, before the payload check; the sync-resumed block is never checked", "child before parent, child references a batch the node lacks"),
 "C09-d": ("C09", "core.rs handle_proposal: leader check moved after the missing-payload early return (payload-resumed blocks skip it)", "a non-leader's block for the current round with a batch that arrives later"),
 "C12-c": ("C12", "reliable_sender.rs keep_alive: on a failed read the oldest pending message is dropped (its handle resolves with an error, which the quorum waiter counts as an ack)", "peers whose connection resets after receiving the batch and before acknowledging"),
 "C13-d": ("C13", "mempool/src/helper.rs replies to the requestor's transactions address instead of its mempool address", "a node that really misses a batch; distinct transaction and mempool ports"),
 "C16-d": ("C16", "store Store::write uses try_send and a detached task when the channel is full", "more than 100 outstanding commands: a later read overtakes the write"),
 "C17-b": ("C17", "mempool config.rs only: quorum = N - N/3", "total stake divisible by 3 (consensus and mempool disagree)"),
})

SUMMARY.update({
 "C01-e": ("C01", "messages.rs: Timeout digest signs only the round (not the reported high-QC round) and TC::verify batch-verifies that digest: the high-QC rounds inside a TC are no longer authenticated", "a Byzantine leader right after a view change rewrites the reported rounds in a TC built from genuine timeouts and proposes below a committed block"),
 "C02-e": ("C02", "core.rs commit: new helper increase_last_committed_round used as the guard at the top (watermark moved before the ancestor walk, which still reads it as the old value)", "a round gap on the committed chain: ancestors are skipped"),
 "C05-e": ("C05", "messages.rs: QC::is_genesis() = (round == 0) used by Block/Timeout::verify, while the synchronizer still compares hash and round", "a proposal whose QC has round 0 but points at a stored uncertified block"),
 "C07-e": ("C07", "", ""),
 "C10-e": ("C10", "core.rs handle_timeout: timeout.verify skipped when timeout.author == self.name", "a timeout spoofed in the receiver's own name carrying a forged QC"),
 "C13-e": ("C13", "core.rs handle_proposal: payload check only for block.round >= self.round (same idea as C08-a, found independently)", "a missed batch plus B_r arriving after B_r+1"),
 "C14-e": ("C14", "reliable_sender.rs keep_alive: early `return` on a failed write skips the re-buffering of pending replies (in-flight messages are dropped)", "a connection failure detected by a write while earlier messages are unacknowledged"),
 "C19-e": ("C19", "core.rs handle_vote: vote.verify skipped for votes naming the node itself (same edit as C04-a, found independently)", "a forged vote in the collector's own name"),
})

SUMMARY.update({
 "C03-d": ("C03", "core.rs local_timeout_round: increase_last_voted_round(high_qc.round + 1) instead of (self.round)", "a round entered through a TC, a second timeout in it, then the slow leader's TC-justified block arrives and is voted for"),
 "C06-d": ("C06", "timer.rs Timer::reset re-arms at max(old deadline, now) + duration: every fast round pushes the deadline one more timeout into the future", "a long fault-free stretch of fast rounds followed by a crash"),
 "C11-c": ("C11", "batch_maker.rs: the timer reset moved out of the size-seal branch, so every transaction re-arms the delay timer", "a steady trickle of small transactions with gaps shorter than max_batch_delay"),
 "C12-d": ("C12", "quorum_waiter.rs keeps the ack stream across batches: late acks of the previous batch are counted for the next one", "two batches in flight with slow acknowledgements"),
 "C15-c": ("C15", "mempool helper.rs answers a BatchRequest with store.notify_read instead of read: an unknown digest parks the helper forever", "a BatchRequest naming a digest the node never stores"),
 "C17-c": ("C17", "consensus config.rs quorum_threshold = 2f+1 with f = (N-1)/3", "total stake not of the form 3f+1"),
 "C18-c": ("C18", "crypto Signature::flatten masks the top three bits of the last byte", "a signature differing only in bits 509-511"),
 "C20-c": ("C20", "messages.rs Block digest hashes the payload digests in sorted order", "two blocks differing only in payload order"),
})

SUMMARY.update({
 "C02-f": ("C02", "core.rs commit: the stop check `ancestor.round <= last_committed_round` replaced by a genesis-QC check before the load", "a round gap directly after the node's last committed block (own chain orphaned by a view change): the committed block is delivered again"),
 "C04-d": ("C04", "messages.rs TC::verify: duplicate-signer check keyed on (author, high_qc_round)", "a member signing several timeouts of one round with different high-QC rounds spliced into one TC"),
 "C07-f": ("C07", "core.rs handle_proposal: early return for block.round <= last_voted_round after the QC/TC processing (sync replies are discarded)", "a missing ancestor arriving after the node voted / timed out in a round at or above it"),
 "C08-e": ("C08", "core.rs handle_proposal: a proposal parked for missing batches is already written to the store; its children find it there", "B_r with a missing batch, then B_r+1 and B_r+2 before the batch arrives"),
 "C09-e": ("C09", "core.rs handle_timeout: requests a proposal when timeout.high_qc.round + 1 == self.round and the node leads, even if it already proposed", "a timeout carrying QC_{r-1} reaching the leader of r after it proposed, with new payload in between"),
 "C14-f": ("C14", "reliable_sender.rs keep_alive: replies paired with pending_replies.pop_back()", ">= 2 unacknowledged messages in flight on one connection"),
 "C16-e": ("C16", "store: Write drains the waiters but keeps the empty queue; NotifyRead fast path queues behind any existing entry without a db lookup", "notify_read while absent, write, then a later notify_read of the same key"),
 "C19-f": ("C19", "aggregator.rs cleanup: retain(k > round) instead of >=: partial quorums of the round just entered are dropped", "votes / timeouts for round r arriving before the node enters r"),
})

SUMMARY.update({
 "C01-f": ("C01", "messages.rs Block::verify: early return Ok for a genesis QC also skips the verification of the embedded TC", "a Byzantine leader of a round >= 4 proposing on the genesis QC with a forged TC: honest nodes vote, the next leaders extend, a second branch is committed"),
 "C03-e": ("C03", "core.rs process_block: round gate `block.round != self.round` became `block.round > self.round`", "a round-r block carrying a valid TC(r-1) and a valid QC of a round >= r"),
 "C05-f": ("C05", "core.rs handle_proposal: payload check moved before block.verify / process_qc; a payload-resumed block is processed without any verification", "a correctly led proposal with a forged QC for b1 and a batch that arrives later"),
 "C06-e": ("C06", "core.rs handle_tc: leader looked up for tc.round instead of the round just entered; a leader that learns of the view change from a peer's TC never proposes", "a crashed leader and a peer's TC reaching the next leader before it has assembled its own"),
 "C10-f": ("C10", "aggregator.rs TCMaker: a re-sent timeout with a higher high-QC round replaces the author's entry and its stake is added again", "an authority timing out twice in one round with a higher QC the second time, before a quorum exists"),
 "C12-e": ("C12", "quorum_waiter.rs: threshold = quorum - own stake hoisted out of the loop while the accumulator still starts at the own stake (own stake counted twice)", "acknowledged stake in [quorum - own, quorum): slow or silent peers"),
 "C13-f": ("C13", "consensus/src/mempool.rs MempoolDriver::verify: the loop collecting missing batches stops at the first one", "a block referencing >= 2 batches the node lacks"),
 "C15-d": ("C15", "crypto Signature::verify / verify_batch: dalek::Signature::from(bytes) (panics on non-canonical top bits) instead of from_bytes(..)?", "a vote / timeout / certificate whose signature has a top bit of the last byte set"),
})

SUMMARY.update({
 "C02-g": ("C02", "core.rs commit: early-return guard `last_committed_round >= block.round` became `==`", "process_block on a block whose 2-chain head is older than the last committed block (late orphaned proposal after a view change, or an old proposal received twice): re-delivery, genesis delivered"),
 "C04-e": ("C04", "messages.rs Timeout::verify no longer checks that the author has stake", "a non-member's self-signed timeout arriving before the genuine quorum: it ends up in the TC the node assembles and sends"),
 "C09-f": ("C09", "core.rs handle_proposal: expected leader computed from the attached TC (tc.round + 1) instead of the block's round", "a block for round r by leader(t+1) carrying a stale TC of round t and a QC of r-1"),
 "C11-d": ("C11", "mempool.rs MempoolReceiverHandler: a received batch is re-serialized from the parsed message before hashing / storing", "a received batch whose encoding parses but is not canonical (trailing bytes)"),
 "C16-f": ("C16", "store Write arm: db.put only when the key is absent", "a key written twice with different values"),
 "C19-g": ("C19", "aggregator.rs QCMaker / TCMaker: a re-delivered vote / timeout is pushed into the certificate again (stake counted once)", "one authority's vote delivered twice before the quorum completes"),
 "C20-d": ("C20", "messages.rs Block digest omits the parent hash when the QC is the genesis QC", "blocks extending genesis: payload/parent boundary and block/vote pre-image collisions"),
})

SUMMARY.update({
 "C08-f": ("C08", "consensus/src/mempool.rs MempoolDriver: cache of proposals already looked up, filled at look-up time; a second delivery of a parked proposal counts as available", "a proposal with a missing batch delivered twice before the batch arrives"),
})

SUMMARY.update({
 "C14-g": ("C14", "reliable_sender.rs keep_alive: the is_closed() filter moved from the transmit loop to the arm that takes new messages; re-buffered and back-off entries are no longer checked", "a cancellation combined with a connection fault (break before the ACK, or cancel during back-off with no further message)"),
})

SUMMARY.update({
 "C13-g": ("C13", "mempool/src/synchronizer.rs Cleanup: gc_round = round.saturating_sub(gc_depth) without the `round < gc_depth` guard: while the round is below gc_depth every Cleanup drops the requests registered before the first Cleanup", "a batch missed in the first rounds of a run, a silent first target, and a commit before the batch arrives"),
})

SUMMARY.update({
 "C06-f": ("C06", "core.rs local_timeout_round: the node's own timeout is fed to handle_timeout only if last_voted_round < round (i.e. not after it voted in that round)", "a round whose block was voted but whose QC never forms (next leader crashed) with exactly a quorum of live nodes: no TC ever forms"),
 "C10-g": ("C10", "core.rs handle_proposal: process_qc(block.qc) skipped when the block carries a TC (only advance_round(tc.round)): high_qc is not updated before voting", "a node that learns a QC only through the post-view-change block, votes for it and then times out"),
})

SUMMARY.update({
 "C07-g": ("C07", "consensus synchronizer retry arm: only the oldest outstanding request is retried", "a gap of >= 2 missed blocks and a silent first target for a deeper ancestor: the oldest entry is a block already held (parked), the missing one is never retried"),
})

SUMMARY.update({
 "C12-f": ("C12", "mempool config.rs quorum_threshold = 2f+1 with f = (N-1)/3 (mempool only)", "total stake not of the form 3f+1 and slow or silent peers"),
})

def confirmed(d):
    out = {}
    for tag in ("with", "without"):
        p = os.path.join(d, "confirm_%s.log" % tag)
        if os.path.exists(p):
            lines = open(p).read().splitlines()
            ok = sum(1 for l in lines if l.endswith(" ok"))
            failed = [l.split()[1] for l in lines if l.endswith("FAILED") and l.startswith("test ")]
            out["suite_and_demo_%s_change" % tag] = {"tests_ok": ok, "failed": failed}
    return out

results = {}
for f in sys.argv[1:]:
    cur = None
    for line in open(f, errors="replace"):
        m = re.match(r"=== (C\d+) with (C\d+-\w)(?: exit=(\d+))?", line)
        if m:
            cur = (m.group(2), m.group(1))
            results.setdefault(cur[0], {}).setdefault(cur[1], {"exit": None, "violations": []})
            if m.group(3) is not None:
                results[cur[0]][cur[1]]["exit"] = int(m.group(3))
            continue
        m = re.match(r"exit=(\d+)", line)
        if m and cur:
            results[cur[0]][cur[1]]["exit"] = int(m.group(1))
            continue
        m = re.match(r"  ([a-zA-Z0-9_:@./-]+): (.*)", line)
        if m and cur:
            v = results[cur[0]][cur[1]]["violations"]
            if len(v) < 4:
                v.append("%s: %s" % (m.group(1), m.group(2).strip()[:160]))

root = "/verif/seeded"
rows = []
for d in sorted(glob.glob(root + "/C*-*")):
    sid = os.path.basename(d)
    prop, change, needs = SUMMARY.get(sid, (sid[:3], "", ""))
    old = {}
    mp = os.path.join(d, "meta.json")
    if os.path.exists(mp):
        try:
            old = json.load(open(mp))
        except Exception:
            old = {}
    det = old.get("detected_by_runs", {})
    for p, r in results.get(sid, {}).items():
        det[p] = r
    meta = {
        "id": sid,
        "property": prop,
        "origin": "independent sub-agent given only the property text and its own scratch worktree of /repo",
        "change": change or old.get("change", ""),
        "needs_to_manifest": needs or old.get("needs_to_manifest", ""),
        "confirmed_in_scratch_worktree": confirmed(d) or old.get("confirmed", {}),
        "checks_run": "quick checks with the patch applied (tools/seedtest.sh on /repo, or tools/seedlab.sh in an isolated snapshot)",
        "detected_by_runs": det,
        "details": "README.md (written by the sub-agent), patch.diff, demo.diff",
    }
    if old.get("detected_by") and not det:
        meta["detected_by_notes"] = old["detected_by"]
    json.dump(meta, open(mp, "w"), indent=1)
    caught = [p for p, r in det.items() if r.get("exit") == 1]
    missed = [p for p, r in det.items() if r.get("exit") == 0]
    note = old.get("detected_by") if not det else None
    rows.append((sid, prop, change, caught, missed, note))

with open(os.path.join(root, "README.md"), "w") as f:
    f.write("# Seeded changes and the checks that catch them\n\n")
    f.write("Each change compiles, passes the repository's 41 tests, and has a demonstration that fails with it and passes without it (confirmed in a scratch worktree; see `confirm_*.log`). `caught by` = quick check exits 1 with a VIOLATION line; `silent` = quick check ran and exited 0.\n\n")
    f.write("| id | property | change | caught by (quick) | silent |\n|----|----------|--------|-------------------|--------|\n")
    for sid, prop, change, caught, missed, note in rows:
        c = ", ".join(sorted(caught)) if caught else (("see meta.json: " + ", ".join(note.keys())) if note else "-")
        f.write("| %s | %s | %s | %s | %s |\n" % (sid, prop, change, c, ", ".join(sorted(missed)) or "-"))
print("wrote", len(rows), "meta files")
