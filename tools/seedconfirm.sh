#!/bin/bash
# Confirm a seeded change in its scratch worktree: existing suite passes with the change, the
# demonstration fails with it and passes without it. Usage: seedconfirm.sh <worktree>
set -u
D="$1"; cd "$D" || exit 2
export CARGO_NET_OFFLINE=true
[ -d "${D%/}-target" ] && export CARGO_TARGET_DIR="${D%/}-target"
run() { cargo test --workspace --no-fail-fast --offline 2>&1 | grep -E "^test .* (ok|FAILED)$|^test result|error(\[|:)" ; }
echo "== state: $(git status --short | grep -v seed_out | tr '\n' ' ')"
echo "== WITH change (+demo)"; run > seed_out/confirm_with.log
grep -c " ok$" seed_out/confirm_with.log; grep "FAILED$" seed_out/confirm_with.log | head -20
git apply -R seed_out/patch.diff || { echo "cannot revert patch"; exit 2; }
echo "== WITHOUT change (+demo)"; run > seed_out/confirm_without.log
grep -c " ok$" seed_out/confirm_without.log; grep "FAILED$" seed_out/confirm_without.log | head -20
git apply seed_out/patch.diff
