#!/bin/bash
# Apply a seeded patch to /repo, run the quick checks of the given properties, undo.
# Usage: seedtest.sh <patch.diff> <P1> [P2 ...]
set -u
P="$1"; shift
cd /verif
git -C /repo diff --quiet || { echo "/repo working tree is not clean"; exit 2; }
git -C /repo apply "$P" || { echo "patch does not apply"; exit 2; }
for prop in "$@"; do
  echo "=== $prop with $(basename $(dirname $P))"
  ./vcheck "$prop" quick > /tmp/seedtest.$prop.out 2> /tmp/seedtest.$prop.err; rc=$?
  echo "exit=$rc"; grep -A1 "^VIOLATION" /tmp/seedtest.$prop.out | head -8; tail -1 /tmp/seedtest.$prop.err | cut -c1-300
done
git -C /repo checkout -- .
git -C /repo status --short | head -3
