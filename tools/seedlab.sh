#!/bin/bash
# Run quick checks against seeded patches in an isolated lab: a snapshot of /verif (the current
# directory, as created by `vp run --with-repo`) whose `repo` symlink points at a private snapshot of
# /repo. Usage:  vp run --with-repo -- tools/seedlab.sh "C09-a C09" "C16-a C16" ...
# Each argument is "<seed id> <property> [<property> ...]"; patches are read from /verif/seeded.
set -u
LAB=$(pwd); REPO=${VP_RUN_REPO:?needs vp run --with-repo}
rm -f repo; ln -s "$REPO" repo
[ -d target ] || cp -a /verif/target ./target
for spec in "$@"; do
  set -- $spec; id=$1; shift
  P=/verif/seeded/$id/patch.diff
  git -C "$REPO" apply "$P" || { echo "=== $id: patch does not apply"; continue; }
  for prop in "$@"; do
    ./vcheck "$prop" quick > out.$id.$prop.txt 2> err.$id.$prop.txt; rc=$?
    echo "=== $prop with $id exit=$rc"
    grep -A1 "^VIOLATION" out.$id.$prop.txt | head -6 | cut -c1-240
    [ $rc -eq 2 ] && tail -3 err.$id.$prop.txt | cut -c1-300
  done
  git -C "$REPO" apply -R "$P"
done
echo ALLDONE
