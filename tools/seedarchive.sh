#!/bin/bash
# seedarchive.sh <ID>: confirm a seed in its worktree (suite passes, demo fails/passes), archive it under /verif/seeded/<ID>, remove the worktree and its build dir.
set -u
ID="$1"; W=/tmp/seed-$ID
[ -d "$W/seed_out" ] || { echo "no seed_out in $W"; exit 2; }
echo "##### $ID"
/verif/tools/seedconfirm.sh $W 2>&1 | tail -7
mkdir -p /verif/seeded/$ID && cp $W/seed_out/patch.diff $W/seed_out/demo.diff $W/seed_out/README.md /verif/seeded/$ID/ 2>/dev/null
cp $W/seed_out/confirm_with.log $W/seed_out/confirm_without.log /verif/seeded/$ID/ 2>/dev/null
git -C /repo worktree remove --force $W; rm -rf ${W}-target
