#!/bin/bash
# seedprocess.sh <ID e.g. C04-a> <props to check...> : confirm in worktree, archive, run checks, clean up.
set -u
ID="$1"; shift
W=/tmp/seed-$ID
[ -d "$W/seed_out" ] || { echo "no seed_out in $W"; exit 2; }
echo "##### $ID"; grep -c '' $W/seed_out/patch.diff | sed 's/^/patch lines: /'
/verif/tools/seedconfirm.sh $W 2>&1 | tail -7
mkdir -p /verif/seeded/$ID && cp $W/seed_out/patch.diff $W/seed_out/demo.diff $W/seed_out/README.md /verif/seeded/$ID/ 2>/dev/null
cp $W/seed_out/confirm_with.log $W/seed_out/confirm_without.log /verif/seeded/$ID/ 2>/dev/null
git -C /repo worktree remove --force $W; rm -rf ${W}-target
/verif/tools/seedtest.sh /verif/seeded/$ID/patch.diff "$@" 2>&1 | grep -v "^WARNING" | cut -c1-260
