#!/bin/bash
# One-off measurement (not a check): which lines of /repo do the workloads execute?
# Builds the harness with -Cinstrument-coverage into /tmp/cov/target (~10 min idle), runs a small sample of
# every workload, and prints llvm-cov's per-file summary for the repository's sources.
set -e
mkdir -p /tmp/cov && cd /verif/harness
LLVM_PROFILE_FILE=/tmp/cov/build-%p-%m.profraw CARGO_TARGET_DIR=/tmp/cov/target RUSTFLAGS="-Cinstrument-coverage --cfg hotstuff_verif" cargo +nightly build --release --offline
cd /tmp/cov && rm -rf prof && mkdir prof
B=/tmp/cov/target/release/hsv; export LLVM_PROFILE_FILE=/tmp/cov/prof/%p-%m.profraw
for w in "cluster s2" "cluster s3" "cluster s4" "cluster s2b n=4 equal_stakes=1 timeout_ms=1000 hi_ms=30 duration_ms=60000" "byz s5" "byz s7" "byz s8" "puppet rand" "puppet d07 sync_retry_ms=1000" "puppet d13" "puppet d15" "puppet d18" "puppet d19" "puppet d20" "puppet d04" "hostile mixed bursts=5" "hostile bigtx bursts=1" "e2e s1" "e2e s10" "e2e s10b" "c04 x" "c09 x" "c11 x scenarios=10" "c12 x scenarios=10" "c14 enum" "c14 rand scenarios=20" "c16 st histories=10" "c16 mt histories=10" "c17 dist samples=500" "c18 sig keys=4" "c18 enc keys=10" "c19 x" "c20 x pairs=50"; do $B $w seed=7 count=4 > /dev/null 2>&1 & done; wait
LB=$(rustc +nightly --print sysroot)/lib/rustlib/x86_64-unknown-linux-gnu/bin
$LB/llvm-profdata merge -sparse prof/*.profraw -o merged.profdata
$LB/llvm-cov report $B -instr-profile=merged.profdata --ignore-filename-regex='(\.cargo|rustc|/verif/harness|simnet\.rs|verif\.rs|tests/)' | grep -E "repo/|TOTAL"
